(** Sanitising a byte string before it is handed to [xml_escape].

    [sanitize] walks the input rune by rune, exactly as [xml_escape] and [legal_xml] do.  A turn
    whose rune is not legal ([legal_step] fails: an invalid UTF-8 byte, decoded as (U+FFFD, 1), or a
    rune outside the Char production of XML 1.0) writes the three bytes of U+FFFD; every other turn
    copies its bytes.

    Results:
      - [sanitize_legal]  : the output is legal XML text,
      - [escape_sanitize] : [xml_escape] cannot tell the output from the input,
      - [sanitize_id]     : legal XML text is left alone. *)
From Saml Require Import Base.Bytes Codec.Utf8 Codec.XmlEscape.
From Coq Require Import Lia ZifyN ZifyNat.
Open Scope N_scope.

(** * Definition *)

(** one turn: [s] is the input from the current rune on, [(r, w)] is [utf8.DecodeRune s] *)
Definition san_rune (r : N) (w : nat) (s : bytes) : bytes :=
  if legal_step r w then firstn w s else esc_fffd.

Fixpoint sanitize_fuel (fuel : nat) (s : bytes) : bytes :=
  match fuel with
  | O => []
  | S f =>
      match s with
      | [] => []
      | _ :: _ =>
          let d := decode_rune s in
          san_rune (fst d) (snd d) s ++ sanitize_fuel f (skipn (snd d) s)
      end
  end.

Definition sanitize (s : bytes) : bytes := sanitize_fuel (length s) s.

(** * Fuel *)

Lemma sanitize_fuel_more : forall f1 f2 s,
  (length s <= f1)%nat -> (length s <= f2)%nat -> sanitize_fuel f1 s = sanitize_fuel f2 s.
Proof.
  induction f1 as [|f1 IH]; intros f2 s H1 H2.
  - destruct s; [|cbn [length] in H1; lia]. destruct f2; reflexivity.
  - destruct f2 as [|f2].
    + destruct s; [reflexivity|cbn [length] in H2; lia].
    + destruct s as [|c t]; [reflexivity|].
      cbn [sanitize_fuel]. f_equal.
      assert (c :: t <> []) as Hne by congruence.
      pose proof (skipn_width_length _ Hne). cbn [length] in *.
      apply IH; lia.
Qed.

Lemma sanitize_fuel_enough : forall fuel s,
  (length s <= fuel)%nat -> sanitize_fuel fuel s = sanitize s.
Proof. intros. apply sanitize_fuel_more; lia. Qed.

Lemma sanitize_nil : sanitize [] = [].
Proof. reflexivity. Qed.

(** the loop equation *)
Lemma sanitize_step : forall s, s <> [] ->
  sanitize s =
  san_rune (fst (decode_rune s)) (snd (decode_rune s)) s ++ sanitize (skipn (snd (decode_rune s)) s).
Proof.
  intros s H. pose proof (skipn_width_length s H) as L.
  destruct s as [|c t]; [congruence|].
  unfold sanitize at 1. cbn [length sanitize_fuel]. f_equal.
  apply sanitize_fuel_enough. cbn [length] in L. lia.
Qed.

(** * Decoding a copied rune again *)

(** the bytes of one decoding step decode to the same rune whatever follows them, unless the step
    was the error case (RuneError, 1) of an invalid byte *)
Lemma decode_rune_firstn_app : forall s r w t,
  decode_rune s = (r, w) -> s <> [] -> ~ (r = rune_error /\ w = 1%nat) ->
  decode_rune (firstn w s ++ t) = (r, w).
Proof.
  intros s r w t D Hne Hbad.
  pose proof (decode_rune_width s Hne) as [W _]. rewrite D in W. cbn [snd] in W.
  destruct (Nat.eq_dec w 1) as [->|Hw].
  - destruct s as [|c t']; [congruence|].
    destruct (decode_rune_one _ _ _ D) as [[L ->]|[L ->]].
    + cbn [firstn app]. apply decode_rune_ascii. exact L.
    + exfalso. apply Hbad. split; reflexivity.
  - assert (2 <= w)%nat as W2 by lia.
    destruct (decode_rune_multi _ _ _ D W2) as (_ & _ & V & E & Len).
    assert (Lw : length (encode_rune r) = w).
    { rewrite <- E, firstn_length. lia. }
    rewrite E, (decode_encode_rune r t V), Lw. reflexivity.
Qed.

(** a legal step is never the error case *)
Lemma legal_step_not_bad r w : legal_step r w = true -> ~ (r = rune_error /\ w = 1%nat).
Proof.
  unfold legal_step. intros L [-> ->].
  change (rune_error =? 65533) with true in L. cbn [Nat.eqb andb negb] in L. discriminate L.
Qed.

Lemma decode_rune_fffd t : decode_rune (esc_fffd ++ t) = (0xFFFD, 3%nat).
Proof. vm_compute. reflexivity. Qed.

Lemma legal_step_fffd : legal_step 0xFFFD 3 = true.
Proof. vm_compute. reflexivity. Qed.

Lemma esc_rune_fffd s : esc_rune 0xFFFD 3 (esc_fffd ++ s) = esc_fffd.
Proof. vm_compute. reflexivity. Qed.

(** * A string that starts with the bytes of one whole rune *)

Lemma legal_xml_app_rune a t r :
  a <> [] -> decode_rune (a ++ t) = (r, length a) ->
  legal_xml (a ++ t) = legal_step r (length a) && legal_xml t.
Proof.
  intros Ha D.
  assert (a ++ t <> []) as Hne by (destruct a; [congruence|discriminate]).
  rewrite (legal_xml_step _ Hne), D. cbn [fst snd].
  rewrite skipn_app, skipn_all, Nat.sub_diag. reflexivity.
Qed.

Lemma xml_escape_app_rune a t r :
  a <> [] -> decode_rune (a ++ t) = (r, length a) ->
  xml_escape (a ++ t) = esc_rune r (length a) (a ++ t) ++ xml_escape t.
Proof.
  intros Ha D.
  assert (a ++ t <> []) as Hne by (destruct a; [congruence|discriminate]).
  rewrite (xml_escape_step _ Hne), D. cbn [fst snd].
  rewrite skipn_app, skipn_all, Nat.sub_diag. reflexivity.
Qed.

(** [esc_rune] looks at its string argument through [firstn w] only *)
Lemma esc_rune_firstn r w s s' : firstn w s = firstn w s' -> esc_rune r w s = esc_rune r w s'.
Proof. intros E. unfold esc_rune. rewrite E. reflexivity. Qed.

(** an illegal step is written as U+FFFD by [xml_escape] *)
Lemma esc_rune_illegal r w s : legal_step r w = false -> esc_rune r w s = esc_fffd.
Proof.
  intros L. unfold esc_rune.
  repeat match goal with
  | |- context [if ?x =? ?k then _ else _] =>
      let E := fresh "E" in
      destruct (N.eqb_spec x k) as [E|E];
      [exfalso; rewrite E in L; unfold legal_step in L; vm_compute in L; discriminate L|]
  end.
  unfold legal_step in L.
  destruct (xml_char_ok r); [|reflexivity].
  destruct ((r =? 65533) && (w =? 1)%nat); [reflexivity|discriminate L].
Qed.

(** the copied bytes of a legal step *)
Lemma firstn_width s r w :
  decode_rune s = (r, w) -> s <> [] -> length (firstn w s) = w /\ firstn w s <> [].
Proof.
  intros D Hne. pose proof (decode_rune_width s Hne) as [W1 W2]. rewrite D in *. cbn [snd] in *.
  assert (length (firstn w s) = w) as Lw by (rewrite firstn_length; lia).
  split; [exact Lw|]. intros E. rewrite E in Lw. cbn [length] in Lw. lia.
Qed.

Lemma copied_rune s r w t :
  decode_rune s = (r, w) -> s <> [] -> legal_step r w = true ->
  firstn w s <> [] /\ length (firstn w s) = w /\
  decode_rune (firstn w s ++ t) = (r, length (firstn w s)).
Proof.
  intros D Hne L. destruct (firstn_width s r w D Hne) as [Lw Hn].
  split; [exact Hn|]. split; [exact Lw|]. rewrite Lw.
  apply decode_rune_firstn_app; [exact D|exact Hne|apply legal_step_not_bad; exact L].
Qed.

(** * The three theorems *)

Theorem sanitize_legal : forall s, legal_xml (sanitize s) = true.
Proof.
  induction s as [|s Hne IH] using rune_ind; [reflexivity|].
  rewrite (sanitize_step s Hne).
  destruct (decode_rune s) as [r w] eqn:D. cbn [fst snd] in *.
  unfold san_rune. destruct (legal_step r w) eqn:L.
  - destruct (copied_rune s r w (sanitize (skipn w s)) D Hne L) as (Hn & Lw & D').
    rewrite (legal_xml_app_rune _ _ r Hn D'), Lw, L, IH. reflexivity.
  - rewrite (legal_xml_app_rune esc_fffd _ 0xFFFD); [|discriminate|apply decode_rune_fffd].
    change (length esc_fffd) with 3%nat. rewrite legal_step_fffd, IH. reflexivity.
Qed.

Theorem escape_sanitize : forall s, xml_escape (sanitize s) = xml_escape s.
Proof.
  induction s as [|s Hne IH] using rune_ind; [reflexivity|].
  rewrite (sanitize_step s Hne), (xml_escape_step s Hne).
  destruct (decode_rune s) as [r w] eqn:D. cbn [fst snd] in *.
  unfold san_rune. destruct (legal_step r w) eqn:L.
  - destruct (copied_rune s r w (sanitize (skipn w s)) D Hne L) as (Hn & Lw & D').
    rewrite (xml_escape_app_rune _ _ r Hn D'), Lw, IH. f_equal.
    apply esc_rune_firstn.
    rewrite firstn_app, Lw, Nat.sub_diag, firstn_firstn, Nat.min_id. cbn [firstn].
    apply app_nil_r.
  - rewrite (xml_escape_app_rune esc_fffd _ 0xFFFD); [|discriminate|apply decode_rune_fffd].
    change (length esc_fffd) with 3%nat.
    rewrite esc_rune_fffd, IH, (esc_rune_illegal r w s L). reflexivity.
Qed.

Theorem sanitize_id : forall s, legal_xml s = true -> sanitize s = s.
Proof.
  induction s as [|s Hne IH] using rune_ind; intros L; [reflexivity|].
  rewrite (legal_xml_step s Hne) in L. apply andb_prop in L as [L1 L2].
  rewrite (sanitize_step s Hne), (IH L2). unfold san_rune. rewrite L1.
  apply firstn_skipn.
Qed.

(** consequences *)
Corollary sanitize_idem : forall s, sanitize (sanitize s) = sanitize s.
Proof. intros s. apply sanitize_id, sanitize_legal. Qed.

Corollary unescape_escape_sanitize : forall s, xml_unescape (xml_escape s) = Some (sanitize s).
Proof.
  intros s. rewrite <- escape_sanitize. apply xml_unescape_escape, sanitize_legal.
Qed.

(** * Examples *)
Example san_ff : sanitize (hx "61ff62") = hx "61efbfbd62". Proof. vm_compute. reflexivity. Qed.
Example san_c3 : sanitize (hx "c3") = hx "efbfbd". Proof. vm_compute. reflexivity. Qed.
Example san_surrogate : sanitize (hx "eda080") = hx "efbfbdefbfbdefbfbd". Proof. vm_compute. reflexivity. Qed.
Example san_fffe : sanitize (hx "efbfbe") = hx "efbfbd". Proof. vm_compute. reflexivity. Qed.
Example san_nul : sanitize (hx "610062") = hx "61efbfbd62". Proof. vm_compute. reflexivity. Qed.
Example san_fffd : sanitize (hx "efbfbd") = hx "efbfbd". Proof. vm_compute. reflexivity. Qed.
Example san_trunc : sanitize (hx "e282") = hx "efbfbdefbfbd". Proof. vm_compute. reflexivity. Qed.
Example san_keep : sanitize (hx "613c26c3a9e282acf09f9880090a0d") = hx "613c26c3a9e282acf09f9880090a0d".
Proof. vm_compute. reflexivity. Qed.
Example san_c3_then_ascii : sanitize (hx "c341") = hx "efbfbd41". Proof. vm_compute. reflexivity. Qed.

Print Assumptions sanitize_legal. Print Assumptions escape_sanitize. Print Assumptions sanitize_id.
