(** What html/template renders for the two auto-submit pages (postTemplate, logoutTemplate).

    The template sources come from Gen/Facts.v ([c_postTemplate], [c_logoutTemplate]), which is
    regenerated from the Go source on every run.  This file
      1. splits a template source at the action delimiters into literal text segments and action
         names ([split_actions]);
      2. computes the four text segments T0..T3 of each template and records their SHAPE:
         three actions with the expected names, each sitting directly between an opening and a
         closing double quote ([action="..."] for the first, [value="..."] for the other two);
      3. models the rendered page: text segments interleaved with the escaped values, the escaper
         being chosen from the attribute the action sits in (URL pipeline for [action=],
         attribute escaper for [value=]; see Codec/HtmlEsc.v);
      4. proves, for ALL inputs, that an attribute scanner walking the rendered page recovers
         exactly the three escaped values (no value can end its attribute), that decoding them
         gives back the inputs, and that the values add no double quote and no angle bracket.

    Everything after the shape lemmas is proved in a section over ARBITRARY segments T0..T3 with
    the shape as hypothesis, and the template constants are made opaque: an edit of a template
    that keeps the shape leaves every proof below untouched. *)
From Saml Require Import Base.Bytes Codec.HtmlEsc Gen.Facts Idp.FactTypes.
Local Open Scope char_scope.
Local Open Scope list_scope.   (* Gen/Facts.v leaves string_scope open: keep [++] on lists *)

(** * 1. splitting a template source *)

Definition push_text (c : ascii) (p : list bytes * list bytes) : list bytes * list bytes :=
  match fst p with
  | t :: ts => ((c :: t) :: ts, snd p)
  | [] => ([[c]], snd p)
  end.
Definition push_act (c : ascii) (p : list bytes * list bytes) : list bytes * list bytes :=
  match snd p with
  | a :: acts => (fst p, (c :: a) :: acts)
  | [] => (fst p, [[c]])
  end.
(** "{{" seen in text mode: the current text segment ends, a fresh one is started in front *)
Definition open_act (p : list bytes * list bytes) : list bytes * list bytes := ([] :: fst p, snd p).
(** "}}" seen in action mode: the current action ends *)
Definition close_act (p : list bytes * list bytes) : list bytes * list bytes := (fst p, [] :: snd p).

(** [split_raw in_act s]: (text segments, raw action bodies), in source order.  The head of the
    first list is the text segment being read, the head of the second the action being read. *)
Fixpoint split_raw (in_act : bool) (s : bytes) {struct s} : list bytes * list bytes :=
  match s with
  | [] => if in_act then ([], [[]]) else ([[]], [])
  | c :: r =>
      match r with
      | d :: r' =>
          if in_act then
            if Ascii.eqb c "}" && Ascii.eqb d "}" then close_act (split_raw false r')
            else push_act c (split_raw true r)
          else
            if Ascii.eqb c "{" && Ascii.eqb d "{" then open_act (split_raw true r')
            else push_text c (split_raw false r)
      | [] => if in_act then push_act c (split_raw true r) else push_text c (split_raw false r)
      end
  end.

Fixpoint ltrim_sp (s : bytes) : bytes :=
  match s with
  | c :: r => if Ascii.eqb c " " then ltrim_sp r else s
  | [] => []
  end.
Definition trim_sp (s : bytes) : bytes := rev (ltrim_sp (rev (ltrim_sp s))).
Definition drop_dot (s : bytes) : bytes :=
  match s with
  | c :: r => if Ascii.eqb c "." then r else s
  | [] => []
  end.
Definition action_name (s : bytes) : bytes := drop_dot (trim_sp s).

Definition split_actions (s : bytes) : list bytes * list bytes :=
  let p := split_raw false s in (fst p, map action_name (snd p)).

(** does a segment still contain an opening delimiter? *)
Fixpoint has_open (s : bytes) : bool :=
  match s with
  | [] => false
  | c :: r =>
      match r with
      | d :: _ => Ascii.eqb c "{" && Ascii.eqb d "{"
      | [] => false
      end || has_open r
  end.

Definition starts_quote (t : bytes) : bool :=
  match t with c :: _ => Ascii.eqb c """" | [] => false end.

Example ex_split :
  split_actions (b "<a href=""{{ .U }}"">{{.T}}</a>") = ([b "<a href="""; b """>"; b "</a>"], [b "U"; b "T"]).
Proof. vm_compute. reflexivity. Qed.

(** * 2. the segments of the two templates and their shape *)

Definition post_T0 : bytes := Eval vm_compute in nth 0 (fst (split_actions c_postTemplate)) [].
Definition post_T1 : bytes := Eval vm_compute in nth 1 (fst (split_actions c_postTemplate)) [].
Definition post_T2 : bytes := Eval vm_compute in nth 2 (fst (split_actions c_postTemplate)) [].
Definition post_T3 : bytes := Eval vm_compute in nth 3 (fst (split_actions c_postTemplate)) [].

Definition logout_T0 : bytes := Eval vm_compute in nth 0 (fst (split_actions c_logoutTemplate)) [].
Definition logout_T1 : bytes := Eval vm_compute in nth 1 (fst (split_actions c_logoutTemplate)) [].
Definition logout_T2 : bytes := Eval vm_compute in nth 2 (fst (split_actions c_logoutTemplate)) [].
Definition logout_T3 : bytes := Eval vm_compute in nth 3 (fst (split_actions c_logoutTemplate)) [].

Lemma post_template_shape :
  split_actions c_postTemplate =
  ([post_T0; post_T1; post_T2; post_T3],
   [b "AssertionConsumerServiceURL"; b "RelayState"; b "SAMLResponse"]).
Proof. vm_compute. reflexivity. Qed.

Lemma logout_template_shape :
  split_actions c_logoutTemplate =
  ([logout_T0; logout_T1; logout_T2; logout_T3],
   [b "LogoutURL"; b "RelayState"; b "SAMLResponse"]).
Proof. vm_compute. reflexivity. Qed.

(** every action sits right between an opening and a closing double quote *)
Lemma post_T0_ends : go_has_suffix post_T0 (b "action=""") = true.
Proof. vm_compute. reflexivity. Qed.
Lemma post_T1_starts : starts_quote post_T1 = true.
Proof. vm_compute. reflexivity. Qed.
Lemma post_T1_ends : go_has_suffix post_T1 (b "value=""") = true.
Proof. vm_compute. reflexivity. Qed.
Lemma post_T2_starts : starts_quote post_T2 = true.
Proof. vm_compute. reflexivity. Qed.
Lemma post_T2_ends : go_has_suffix post_T2 (b "value=""") = true.
Proof. vm_compute. reflexivity. Qed.
Lemma post_T3_starts : starts_quote post_T3 = true.
Proof. vm_compute. reflexivity. Qed.
(** the first action is not in a [value=] attribute (the escaper choice below looks at the name) *)
Lemma post_T0_not_value : go_has_suffix post_T0 (b "value=""") = false.
Proof. vm_compute. reflexivity. Qed.
Lemma post_no_open :
  has_open post_T0 = false /\ has_open post_T1 = false /\
  has_open post_T2 = false /\ has_open post_T3 = false.
Proof. vm_compute. repeat split; reflexivity. Qed.

Lemma logout_T0_ends : go_has_suffix logout_T0 (b "action=""") = true.
Proof. vm_compute. reflexivity. Qed.
Lemma logout_T1_starts : starts_quote logout_T1 = true.
Proof. vm_compute. reflexivity. Qed.
Lemma logout_T1_ends : go_has_suffix logout_T1 (b "value=""") = true.
Proof. vm_compute. reflexivity. Qed.
Lemma logout_T2_starts : starts_quote logout_T2 = true.
Proof. vm_compute. reflexivity. Qed.
Lemma logout_T2_ends : go_has_suffix logout_T2 (b "value=""") = true.
Proof. vm_compute. reflexivity. Qed.
Lemma logout_T3_starts : starts_quote logout_T3 = true.
Proof. vm_compute. reflexivity. Qed.
Lemma logout_T0_not_value : go_has_suffix logout_T0 (b "value=""") = false.
Proof. vm_compute. reflexivity. Qed.
Lemma logout_no_open :
  has_open logout_T0 = false /\ has_open logout_T1 = false /\
  has_open logout_T2 = false /\ has_open logout_T3 = false.
Proof. vm_compute. repeat split; reflexivity. Qed.

(** from here on the concrete text is not looked at any more *)
Opaque post_T0 post_T1 post_T2 post_T3 logout_T0 logout_T1 logout_T2 logout_T3.

(** * 3. rendering *)

Definition render_post (acs relay msg : bytes) : bytes :=
  post_T0 ++ esc_action acs ++ post_T1 ++ attr_escape relay ++ post_T2 ++ attr_escape msg ++ post_T3.

Definition render_logout (url relay msg : bytes) : bytes :=
  logout_T0 ++ esc_action url ++ logout_T1 ++ attr_escape relay ++ logout_T2 ++ attr_escape msg ++ logout_T3.

(** The escaper html/template inserts for an action directly after [pre], for the two contexts that
    occur here (attrType: "action" is a URL attribute, "value" a plain one; both double-quoted). *)
Definition ctx_escaper (pre : bytes) : option (bytes -> bytes) :=
  if go_has_suffix pre (b "value=""") then Some attr_escape
  else if go_has_suffix pre (b "action=""") then Some esc_action
  else None.

(** text segments interleaved with the escaped values *)
Fixpoint render_tpl (texts vals : list bytes) {struct texts} : option bytes :=
  match texts with
  | [] => None
  | t :: ts =>
      match vals with
      | [] => match ts with [] => Some t | _ :: _ => None end
      | v :: vs =>
          match ctx_escaper t, render_tpl ts vs with
          | Some e, Some r => Some (t ++ e v ++ r)
          | _, _ => None
          end
      end
  end.

(** [render_post] / [render_logout] ARE the generic rendering of the split template: the choice of
    [esc_action] for the first value and [attr_escape] for the other two follows from the shape. *)
Lemma render_post_model acs relay msg :
  render_tpl (fst (split_actions c_postTemplate)) [acs; relay; msg] = Some (render_post acs relay msg).
Proof.
  rewrite post_template_shape. cbn [fst render_tpl]. unfold ctx_escaper.
  rewrite post_T0_not_value, post_T0_ends, post_T1_ends, post_T2_ends. reflexivity.
Qed.

Lemma render_logout_model url relay msg :
  render_tpl (fst (split_actions c_logoutTemplate)) [url; relay; msg] = Some (render_logout url relay msg).
Proof.
  rewrite logout_template_shape. cbn [fst render_tpl]. unfold ctx_escaper.
  rewrite logout_T0_not_value, logout_T0_ends, logout_T1_ends, logout_T2_ends. reflexivity.
Qed.

(** * 4. the attribute scanner (attribute value, double-quoted state: read up to the next quote) *)

Fixpoint scan_value (s : bytes) : bytes * bytes :=
  match s with
  | [] => ([], [])
  | c :: r =>
      if Ascii.eqb c """" then ([], r)
      else match scan_value r with (v, rest) => (c :: v, rest) end
  end.

Theorem scan_escaped : forall v rest,
  (forall c, In c v -> c <> """") -> scan_value (v ++ """" :: rest) = (v, rest).
Proof.
  induction v as [|c v IH]; intros rest H.
  - reflexivity.
  - cbn [app scan_value].
    destruct (Ascii.eqb c """") eqn:E.
    + apply Ascii.eqb_eq in E. exfalso. apply (H c); [left; reflexivity|exact E].
    + rewrite IH; [reflexivity|]. intros d Hd. apply H. right. exact Hd.
Qed.

Lemma starts_quote_eq t : starts_quote t = true -> t = """" :: tl t.
Proof.
  destruct t as [|c t]; cbn [starts_quote tl]; [discriminate|].
  intros H. apply Ascii.eqb_eq in H. now subst c.
Qed.

Lemma scan_closing v t :
  (forall c, In c v -> c <> """") -> starts_quote t = true -> scan_value (v ++ t) = (v, tl t).
Proof.
  intros Hv Ht. destruct t as [|c t]; cbn [starts_quote] in Ht; [discriminate|].
  apply Ascii.eqb_eq in Ht. subst c. cbn [tl]. apply scan_escaped, Hv.
Qed.

Lemma scan_closing_app v t x :
  (forall c, In c v -> c <> """") -> starts_quote t = true ->
  scan_value (v ++ t ++ x) = (v, tl t ++ x).
Proof.
  intros Hv Ht. destruct t as [|c t]; cbn [starts_quote] in Ht; [discriminate|].
  apply Ascii.eqb_eq in Ht. subst c. cbn [tl app]. apply scan_escaped, Hv.
Qed.

(** * counting occurrences of a byte *)

Fixpoint count (c : ascii) (s : bytes) : nat :=
  match s with
  | [] => 0
  | d :: r => (if Ascii.eqb c d then 1 else 0) + count c r
  end.

Lemma count_app c x y : count c (x ++ y) = count c x + count c y.
Proof. induction x as [|d x IH]; cbn [app count]; [reflexivity|]. rewrite IH. lia. Qed.

Lemma count_notin c s : (In c s -> False) -> count c s = 0.
Proof.
  induction s as [|d s IH]; intros H; cbn [count]; [reflexivity|].
  destruct (Ascii.eqb c d) eqn:E.
  - apply Ascii.eqb_eq in E. exfalso. apply H. left. now subst.
  - rewrite IH; [reflexivity|]. intros Hin. apply H. right. exact Hin.
Qed.

Lemma count_zero_notin c s : count c s = 0 -> In c s -> False.
Proof.
  induction s as [|d s IH]; cbn [count In]; [tauto|].
  intros H [E|Hin].
  - subst d. rewrite Ascii.eqb_refl in H. discriminate H.
  - apply IH; [lia|exact Hin].
Qed.

(** * 5. a page with three quoted values, over ARBITRARY segments of the right shape *)

Definition unescape3 (t : bytes * bytes * bytes) : bytes * bytes * bytes :=
  match t with (a, r, m) => (html_attr_unescape a, html_attr_unescape r, html_attr_unescape m) end.

Section Page3.
  Variables T0 T1 T2 T3 : bytes.

  Definition render3 (v1 v2 v3 : bytes) : bytes := T0 ++ v1 ++ T1 ++ v2 ++ T2 ++ v3 ++ T3.

  (** walk a page: strip T0, scan a value, strip the rest of T1 (after its leading quote), scan,
      strip the rest of T2, scan, and require that what is left is exactly the rest of T3 *)
  Definition extract3 (page : bytes) : option (bytes * bytes * bytes) :=
    if has_prefix page T0 then
      match scan_value (drop_prefix page T0) with
      | (v1, r1) =>
          if has_prefix r1 (tl T1) then
            match scan_value (drop_prefix r1 (tl T1)) with
            | (v2, r2) =>
                if has_prefix r2 (tl T2) then
                  match scan_value (drop_prefix r2 (tl T2)) with
                  | (v3, r3) => if beq r3 (tl T3) then Some (v1, v2, v3) else None
                  end
                else None
            end
          else None
      end
    else None.

  Hypothesis Q1 : starts_quote T1 = true.
  Hypothesis Q2 : starts_quote T2 = true.
  Hypothesis Q3 : starts_quote T3 = true.

  Variables v1 v2 v3 : bytes.
  Hypothesis N1 : forall c, In c v1 -> c <> """".
  Hypothesis N2 : forall c, In c v2 -> c <> """".
  Hypothesis N3 : forall c, In c v3 -> c <> """".

  Theorem render3_parts :
    has_prefix (render3 v1 v2 v3) T0 = true /\
    drop_prefix (render3 v1 v2 v3) T0 = v1 ++ T1 ++ v2 ++ T2 ++ v3 ++ T3 /\
    scan_value (v1 ++ T1 ++ v2 ++ T2 ++ v3 ++ T3) = (v1, tl T1 ++ v2 ++ T2 ++ v3 ++ T3) /\
    has_prefix (tl T1 ++ v2 ++ T2 ++ v3 ++ T3) (tl T1) = true /\
    drop_prefix (tl T1 ++ v2 ++ T2 ++ v3 ++ T3) (tl T1) = v2 ++ T2 ++ v3 ++ T3 /\
    scan_value (v2 ++ T2 ++ v3 ++ T3) = (v2, tl T2 ++ v3 ++ T3) /\
    has_prefix (tl T2 ++ v3 ++ T3) (tl T2) = true /\
    drop_prefix (tl T2 ++ v3 ++ T3) (tl T2) = v3 ++ T3 /\
    scan_value (v3 ++ T3) = (v3, tl T3).
  Proof.
    unfold render3. repeat split.
    - apply has_prefix_app.
    - apply drop_prefix_app.
    - apply scan_closing_app; assumption.
    - apply has_prefix_app.
    - apply drop_prefix_app.
    - apply scan_closing_app; assumption.
    - apply has_prefix_app.
    - apply drop_prefix_app.
    - apply scan_closing; assumption.
  Qed.

  Theorem extract3_render : extract3 (render3 v1 v2 v3) = Some (v1, v2, v3).
  Proof.
    destruct render3_parts as (P0 & D0 & S1 & P1 & D1 & S2 & P2 & D2 & S3).
    unfold extract3.
    rewrite P0, D0, S1. cbv beta iota.
    rewrite P1, D1, S2. cbv beta iota.
    rewrite P2, D2, S3. cbv beta iota.
    rewrite beq_refl. reflexivity.
  Qed.
End Page3.

(** substituted values that do not contain [c] leave the number of [c] in the page unchanged *)
Theorem render3_count T0 T1 T2 T3 c v1 v2 v3 :
  count c v1 = 0 -> count c v2 = 0 -> count c v3 = 0 ->
  count c (render3 T0 T1 T2 T3 v1 v2 v3) = count c (T0 ++ T1 ++ T2 ++ T3).
Proof. intros H1 H2 H3. unfold render3. rewrite !count_app. lia. Qed.

(** the three escaped values, as facts about arbitrary inputs *)
Lemma esc_action_noq s : forall c, In c (esc_action s) -> c <> """".
Proof. intros c H E. subst c. exact (esc_action_no_quote s H). Qed.
Lemma attr_escape_noq s : forall c, In c (attr_escape s) -> c <> """".
Proof. intros c H E. subst c. exact (attr_escape_no_quote s H). Qed.

(** * the POST page *)

Definition extract_post : bytes -> option (bytes * bytes * bytes) :=
  extract3 post_T0 post_T1 post_T2 post_T3.

Lemma render_post_as3 acs relay msg :
  render_post acs relay msg =
  render3 post_T0 post_T1 post_T2 post_T3 (esc_action acs) (attr_escape relay) (attr_escape msg).
Proof. reflexivity. Qed.

Theorem render_post_parts acs relay msg :
  has_prefix (render_post acs relay msg) post_T0 = true /\
  drop_prefix (render_post acs relay msg) post_T0 =
    esc_action acs ++ post_T1 ++ attr_escape relay ++ post_T2 ++ attr_escape msg ++ post_T3 /\
  scan_value (esc_action acs ++ post_T1 ++ attr_escape relay ++ post_T2 ++ attr_escape msg ++ post_T3) =
    (esc_action acs, tl post_T1 ++ attr_escape relay ++ post_T2 ++ attr_escape msg ++ post_T3) /\
  has_prefix (tl post_T1 ++ attr_escape relay ++ post_T2 ++ attr_escape msg ++ post_T3) (tl post_T1) = true /\
  drop_prefix (tl post_T1 ++ attr_escape relay ++ post_T2 ++ attr_escape msg ++ post_T3) (tl post_T1) =
    attr_escape relay ++ post_T2 ++ attr_escape msg ++ post_T3 /\
  scan_value (attr_escape relay ++ post_T2 ++ attr_escape msg ++ post_T3) =
    (attr_escape relay, tl post_T2 ++ attr_escape msg ++ post_T3) /\
  has_prefix (tl post_T2 ++ attr_escape msg ++ post_T3) (tl post_T2) = true /\
  drop_prefix (tl post_T2 ++ attr_escape msg ++ post_T3) (tl post_T2) = attr_escape msg ++ post_T3 /\
  scan_value (attr_escape msg ++ post_T3) = (attr_escape msg, tl post_T3).
Proof.
  rewrite render_post_as3.
  apply render3_parts;
    first [exact post_T1_starts | exact post_T2_starts | exact post_T3_starts
          | apply esc_action_noq | apply attr_escape_noq].
Qed.

Theorem extract_post_render acs relay msg :
  extract_post (render_post acs relay msg) = Some (esc_action acs, attr_escape relay, attr_escape msg).
Proof.
  rewrite render_post_as3. unfold extract_post.
  apply extract3_render;
    first [exact post_T1_starts | exact post_T2_starts | exact post_T3_starts
          | apply esc_action_noq | apply attr_escape_noq].
Qed.

Theorem post_values_roundtrip acs relay msg :
  no_nul relay = true -> no_nul msg = true ->
  option_map unescape3 (extract_post (render_post acs relay msg)) =
  Some (url_normalize (url_filter acs), relay, msg).
Proof.
  intros Hr Hm. rewrite extract_post_render. cbn [option_map unescape3].
  rewrite esc_action_unescape, (html_attr_roundtrip relay Hr), (html_attr_roundtrip msg Hm).
  reflexivity.
Qed.

Theorem render_post_no_breakout acs relay msg :
  count """" (render_post acs relay msg) = count """" (post_T0 ++ post_T1 ++ post_T2 ++ post_T3) /\
  count "<" (render_post acs relay msg) = count "<" (post_T0 ++ post_T1 ++ post_T2 ++ post_T3) /\
  count ">" (render_post acs relay msg) = count ">" (post_T0 ++ post_T1 ++ post_T2 ++ post_T3).
Proof.
  rewrite render_post_as3. repeat split; apply render3_count; apply count_notin.
  - apply esc_action_no_quote.
  - apply attr_escape_no_quote.
  - apply attr_escape_no_quote.
  - apply esc_action_no_lt.
  - apply attr_escape_no_lt.
  - apply attr_escape_no_lt.
  - apply esc_action_no_gt.
  - apply attr_escape_no_gt.
  - apply attr_escape_no_gt.
Qed.

(** two pages are equal only if the three escaped values are; with the decoding facts of
    HtmlEsc.v, NUL-free relay states and messages are then equal themselves *)
Theorem render_post_injective acs relay msg acs' relay' msg' :
  render_post acs relay msg = render_post acs' relay' msg' ->
  esc_action acs = esc_action acs' /\ attr_escape relay = attr_escape relay' /\ attr_escape msg = attr_escape msg'.
Proof.
  intros H. apply (f_equal extract_post) in H. rewrite !extract_post_render in H.
  injection H as E1 E2 E3. auto.
Qed.

(** * the logout page *)

Definition extract_logout : bytes -> option (bytes * bytes * bytes) :=
  extract3 logout_T0 logout_T1 logout_T2 logout_T3.

Lemma render_logout_as3 url relay msg :
  render_logout url relay msg =
  render3 logout_T0 logout_T1 logout_T2 logout_T3 (esc_action url) (attr_escape relay) (attr_escape msg).
Proof. reflexivity. Qed.

Theorem render_logout_parts url relay msg :
  has_prefix (render_logout url relay msg) logout_T0 = true /\
  drop_prefix (render_logout url relay msg) logout_T0 =
    esc_action url ++ logout_T1 ++ attr_escape relay ++ logout_T2 ++ attr_escape msg ++ logout_T3 /\
  scan_value (esc_action url ++ logout_T1 ++ attr_escape relay ++ logout_T2 ++ attr_escape msg ++ logout_T3) =
    (esc_action url, tl logout_T1 ++ attr_escape relay ++ logout_T2 ++ attr_escape msg ++ logout_T3) /\
  has_prefix (tl logout_T1 ++ attr_escape relay ++ logout_T2 ++ attr_escape msg ++ logout_T3) (tl logout_T1) = true /\
  drop_prefix (tl logout_T1 ++ attr_escape relay ++ logout_T2 ++ attr_escape msg ++ logout_T3) (tl logout_T1) =
    attr_escape relay ++ logout_T2 ++ attr_escape msg ++ logout_T3 /\
  scan_value (attr_escape relay ++ logout_T2 ++ attr_escape msg ++ logout_T3) =
    (attr_escape relay, tl logout_T2 ++ attr_escape msg ++ logout_T3) /\
  has_prefix (tl logout_T2 ++ attr_escape msg ++ logout_T3) (tl logout_T2) = true /\
  drop_prefix (tl logout_T2 ++ attr_escape msg ++ logout_T3) (tl logout_T2) = attr_escape msg ++ logout_T3 /\
  scan_value (attr_escape msg ++ logout_T3) = (attr_escape msg, tl logout_T3).
Proof.
  rewrite render_logout_as3.
  apply render3_parts;
    first [exact logout_T1_starts | exact logout_T2_starts | exact logout_T3_starts
          | apply esc_action_noq | apply attr_escape_noq].
Qed.

Theorem extract_logout_render url relay msg :
  extract_logout (render_logout url relay msg) = Some (esc_action url, attr_escape relay, attr_escape msg).
Proof.
  rewrite render_logout_as3. unfold extract_logout.
  apply extract3_render;
    first [exact logout_T1_starts | exact logout_T2_starts | exact logout_T3_starts
          | apply esc_action_noq | apply attr_escape_noq].
Qed.

Theorem logout_values_roundtrip url relay msg :
  no_nul relay = true -> no_nul msg = true ->
  option_map unescape3 (extract_logout (render_logout url relay msg)) =
  Some (url_normalize (url_filter url), relay, msg).
Proof.
  intros Hr Hm. rewrite extract_logout_render. cbn [option_map unescape3].
  rewrite esc_action_unescape, (html_attr_roundtrip relay Hr), (html_attr_roundtrip msg Hm).
  reflexivity.
Qed.

Theorem render_logout_no_breakout url relay msg :
  count """" (render_logout url relay msg) = count """" (logout_T0 ++ logout_T1 ++ logout_T2 ++ logout_T3) /\
  count "<" (render_logout url relay msg) = count "<" (logout_T0 ++ logout_T1 ++ logout_T2 ++ logout_T3) /\
  count ">" (render_logout url relay msg) = count ">" (logout_T0 ++ logout_T1 ++ logout_T2 ++ logout_T3).
Proof.
  rewrite render_logout_as3. repeat split; apply render3_count; apply count_notin.
  - apply esc_action_no_quote.
  - apply attr_escape_no_quote.
  - apply attr_escape_no_quote.
  - apply esc_action_no_lt.
  - apply attr_escape_no_lt.
  - apply attr_escape_no_lt.
  - apply esc_action_no_gt.
  - apply attr_escape_no_gt.
  - apply attr_escape_no_gt.
Qed.

Theorem render_logout_injective url relay msg url' relay' msg' :
  render_logout url relay msg = render_logout url' relay' msg' ->
  esc_action url = esc_action url' /\ attr_escape relay = attr_escape relay' /\ attr_escape msg = attr_escape msg'.
Proof.
  intros H. apply (f_equal extract_logout) in H. rewrite !extract_logout_render in H.
  injection H as E1 E2 E3. auto.
Qed.

(** * 6. examples *)

Example ex_extract_post_hostile_relay :
  extract_post (render_post (b "https://sp/acs?a=1&b=2") (b """><script>alert(1)</script>") (b "PHNhbWw+"))
  = Some (b "https://sp/acs?a=1&amp;b=2",
          b "&#34;&gt;&lt;script&gt;alert(1)&lt;/script&gt;",
          b "PHNhbWw&#43;").
Proof. vm_compute. reflexivity. Qed.

Example ex_extract_post_hostile_relay_decoded :
  option_map unescape3
    (extract_post (render_post (b "https://sp/acs?a=1&b=2") (b """><script>alert(1)</script>") (b "PHNhbWw+")))
  = Some (b "https://sp/acs?a=1&b=2", b """><script>alert(1)</script>", b "PHNhbWw+").
Proof. vm_compute. reflexivity. Qed.

Example ex_extract_post_javascript :
  extract_post (render_post (b "javascript:alert(1)") (b "rs") (b "PHNhbWw+"))
  = Some (b "#ZgotmplZ", b "rs", b "PHNhbWw&#43;").
Proof. vm_compute. reflexivity. Qed.

Example ex_extract_logout_hostile :
  extract_logout (render_logout (b "javascript:alert(1)") (b """ onfocus=""x") (b "a<b>"))
  = Some (b "#ZgotmplZ", b "&#34; onfocus=&#34;x", b "a&lt;b&gt;").
Proof. vm_compute. reflexivity. Qed.

(** a page whose first value was NOT escaped is rejected by the walker: the quote ends the
    attribute early and the rest of T1 does not follow *)
Example ex_extract_post_unescaped :
  extract_post (post_T0 ++ b "x"" y=""" ++ post_T1 ++ b "r" ++ post_T2 ++ b "m" ++ post_T3) = None.
Proof. vm_compute. reflexivity. Qed.

Print Assumptions post_template_shape.
Print Assumptions logout_template_shape.
Print Assumptions render_post_model.
Print Assumptions render_logout_model.
Print Assumptions scan_escaped.
Print Assumptions render_post_parts.
Print Assumptions extract_post_render.
Print Assumptions post_values_roundtrip.
Print Assumptions render_post_no_breakout.
Print Assumptions render_post_injective.
Print Assumptions render_logout_parts.
Print Assumptions extract_logout_render.
Print Assumptions logout_values_roundtrip.
Print Assumptions render_logout_no_breakout.
Print Assumptions render_logout_injective.
