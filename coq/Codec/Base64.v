(** encoding/base64 StdEncoding (Go 1.23), byte level: EncodeToString / DecodeString.

    Standard alphabet A-Z a-z 0-9 + /, padding character '='.  The decoder is the non-strict
    one: CR and LF are skipped anywhere in the input, the remaining length must be a multiple
    of four, padding ('=' or '==') may only close the last quantum, and non-zero trailing bits
    in a padded last quantum are accepted (StdEncoding is not Strict()).  Every other byte is a
    CorruptInputError, modelled as [None]. *)
From Saml Require Import Base.Bytes.
From Coq Require Import NArith ZifyN ZifyNat.
Ltac Zify.zify_post_hook ::= Z.div_mod_to_equations.
Local Open Scope char_scope.
Local Open Scope N_scope.

(** * Alphabet *)

Definition CR : ascii := "013".
Definition LF : ascii := "010".
Definition PAD : ascii := "=".

(** 6-bit value -> alphabet character *)
Definition enc6 (n : N) : ascii :=
  ascii_of_N (if n <? 26 then n + 65
              else if n <? 52 then n + 71
              else if n <? 62 then n - 4
              else if n =? 62 then 43 else 47).

(** alphabet character -> 6-bit value; [None] for every byte outside the alphabet (including '=') *)
Definition dec6 (c : ascii) : option N :=
  let n := N_of_ascii c in
  if (65 <=? n) && (n <=? 90) then Some (n - 65)
  else if (97 <=? n) && (n <=? 122) then Some (n - 71)
  else if (48 <=? n) && (n <=? 57) then Some (n + 4)
  else if n =? 43 then Some 62
  else if n =? 47 then Some 63
  else None.

(** the 64 alphabet characters and '=' *)
Definition b64_char (c : ascii) : bool :=
  let n := N_of_ascii c in
  (65 <=? n) && (n <=? 90) || (97 <=? n) && (n <=? 122) || (48 <=? n) && (n <=? 57)
  || (n =? 43) || (n =? 47) || (n =? 61).

Definition not_crlf (c : ascii) : bool := negb (Ascii.eqb c CR || Ascii.eqb c LF).

(** * Encoder *)

Definition enc3 (a b c : ascii) : bytes :=
  let x := N_of_ascii a in let y := N_of_ascii b in let z := N_of_ascii c in
  [enc6 (x / 4); enc6 ((x mod 4) * 16 + y / 16); enc6 ((y mod 16) * 4 + z / 64); enc6 (z mod 64)].
Definition enc2 (a b : ascii) : bytes :=
  let x := N_of_ascii a in let y := N_of_ascii b in
  [enc6 (x / 4); enc6 ((x mod 4) * 16 + y / 16); enc6 ((y mod 16) * 4); PAD].
Definition enc1 (a : ascii) : bytes :=
  let x := N_of_ascii a in
  [enc6 (x / 4); enc6 ((x mod 4) * 16); PAD; PAD].

Fixpoint b64_encode (x : bytes) : bytes :=
  match x with
  | [] => []
  | [a] => enc1 a
  | [a; b] => enc2 a b
  | a :: b :: c :: r => enc3 a b c ++ b64_encode r
  end.

(** * Decoder *)

Definition byte1 (n1 n2 : N) : ascii := ascii_of_N (n1 * 4 + n2 / 16).
Definition byte2 (n2 n3 : N) : ascii := ascii_of_N ((n2 mod 16) * 16 + n3 / 4).
Definition byte3 (n3 n4 : N) : ascii := ascii_of_N ((n3 mod 4) * 64 + n4).

(** a quantum that is followed by more input: four alphabet characters, no padding *)
Definition dec_full (c1 c2 c3 c4 : ascii) : option bytes :=
  match dec6 c1, dec6 c2, dec6 c3, dec6 c4 with
  | Some n1, Some n2, Some n3, Some n4 => Some [byte1 n1 n2; byte2 n2 n3; byte3 n3 n4]
  | _, _, _, _ => None
  end.

(** the last quantum: xxxx, xxx= or xx== ; trailing bits are not checked *)
Definition dec_last (c1 c2 c3 c4 : ascii) : option bytes :=
  match dec6 c1, dec6 c2 with
  | Some n1, Some n2 =>
      if Ascii.eqb c3 PAD then
        if Ascii.eqb c4 PAD then Some [byte1 n1 n2] else None
      else
        match dec6 c3 with
        | Some n3 =>
            if Ascii.eqb c4 PAD then Some [byte1 n1 n2; byte2 n2 n3]
            else match dec6 c4 with
                 | Some n4 => Some [byte1 n1 n2; byte2 n2 n3; byte3 n3 n4]
                 | None => None
                 end
        | None => None
        end
  | _, _ => None
  end.

(** decoding of input that no longer contains CR / LF *)
Fixpoint dec_go (s : bytes) : option bytes :=
  match s with
  | [] => Some []
  | c1 :: c2 :: c3 :: c4 :: r =>
      match r with
      | [] => dec_last c1 c2 c3 c4
      | _ :: _ =>
          match dec_full c1 c2 c3 c4, dec_go r with
          | Some x, Some y => Some (x ++ y)
          | _, _ => None
          end
      end
  | _ => None
  end.

Definition b64_decode (s : bytes) : option bytes := dec_go (filter not_crlf s).

(** * Per-character facts *)

Lemma dec6_enc6 n : n < 64 -> dec6 (enc6 n) = Some n.
Proof.
  intros H. destruct n as [|p]; [reflexivity|].
  do 6 (try destruct p as [p|p|]); first [exfalso; lia | reflexivity].
Qed.

Lemma enc6_not_pad n : n < 64 -> Ascii.eqb (enc6 n) PAD = false.
Proof.
  intros H. destruct n as [|p]; [reflexivity|].
  do 6 (try destruct p as [p|p|]); first [exfalso; lia | reflexivity].
Qed.

Lemma enc6_char n : n < 64 -> b64_char (enc6 n) = true.
Proof.
  intros H. destruct n as [|p]; [reflexivity|].
  do 6 (try destruct p as [p|p|]); first [exfalso; lia | reflexivity].
Qed.

(** [b64_char] is exactly: in the domain of [dec6], or '=' *)
Lemma b64_char_dec6 c :
  b64_char c = match dec6 c with Some _ => true | None => Ascii.eqb c PAD end.
Proof. destruct c as [[|] [|] [|] [|] [|] [|] [|] [|]]; reflexivity. Qed.

Lemma dec6_range c n : dec6 c = Some n -> n < 64.
Proof.
  destruct c as [[|] [|] [|] [|] [|] [|] [|] [|]]; vm_compute; intros H;
    first [discriminate H | injection H as <-; reflexivity].
Qed.

Lemma b64_char_not_crlf c : b64_char c = true -> not_crlf c = true.
Proof.
  destruct c as [[|] [|] [|] [|] [|] [|] [|] [|]]; vm_compute; intros H;
    first [reflexivity | discriminate H].
Qed.

Lemma pad_char : b64_char PAD = true.
Proof. reflexivity. Qed.

Lemma dec6_some_char c n : dec6 c = Some n -> b64_char c = true.
Proof. intros H. now rewrite b64_char_dec6, H. Qed.

Lemma eqb_pad_char c : Ascii.eqb c PAD = true -> b64_char c = true.
Proof. intros H. apply Ascii.eqb_eq in H. now subst. Qed.

(** * Arithmetic of one group *)

Lemma byte_bound c : N_of_ascii c < 256.
Proof. apply N_ascii_bounded. Qed.

Lemma sextets3 x y z : x < 256 -> y < 256 -> z < 256 ->
  x / 4 < 64 /\ (x mod 4) * 16 + y / 16 < 64 /\ (y mod 16) * 4 + z / 64 < 64 /\ z mod 64 < 64.
Proof. intros. repeat split; lia. Qed.

Lemma sextets2 x y : x < 256 -> y < 256 ->
  x / 4 < 64 /\ (x mod 4) * 16 + y / 16 < 64 /\ (y mod 16) * 4 < 64.
Proof. intros. repeat split; lia. Qed.

Lemma sextets1 x : x < 256 -> x / 4 < 64 /\ (x mod 4) * 16 < 64.
Proof. intros. repeat split; lia. Qed.

Lemma join1 x y : y < 256 -> (x / 4) * 4 + ((x mod 4) * 16 + y / 16) / 16 = x.
Proof. intros. lia. Qed.

Lemma join1_last x : (x / 4) * 4 + ((x mod 4) * 16) / 16 = x.
Proof. lia. Qed.

Lemma join2 x y z : y < 256 -> z < 256 ->
  (((x mod 4) * 16 + y / 16) mod 16) * 16 + ((y mod 16) * 4 + z / 64) / 4 = y.
Proof. intros. lia. Qed.

Lemma join2_last x y : y < 256 ->
  (((x mod 4) * 16 + y / 16) mod 16) * 16 + ((y mod 16) * 4) / 4 = y.
Proof. intros. lia. Qed.

Lemma join3 y z : z < 256 -> (((y mod 16) * 4 + z / 64) mod 4) * 64 + z mod 64 = z.
Proof. intros. lia. Qed.

Lemma byte1_enc a y : y < 256 ->
  byte1 (N_of_ascii a / 4) ((N_of_ascii a mod 4) * 16 + y / 16) = a.
Proof. intros H. unfold byte1. rewrite join1 by assumption. apply ascii_N_embedding. Qed.

Lemma byte1_enc_last a : byte1 (N_of_ascii a / 4) ((N_of_ascii a mod 4) * 16) = a.
Proof. unfold byte1. rewrite join1_last. apply ascii_N_embedding. Qed.

Lemma byte2_enc x c z : z < 256 ->
  byte2 ((x mod 4) * 16 + N_of_ascii c / 16) ((N_of_ascii c mod 16) * 4 + z / 64) = c.
Proof. intros H. unfold byte2. rewrite join2 by (assumption || apply byte_bound). apply ascii_N_embedding. Qed.

Lemma byte2_enc_last x c :
  byte2 ((x mod 4) * 16 + N_of_ascii c / 16) ((N_of_ascii c mod 16) * 4) = c.
Proof. unfold byte2. rewrite join2_last by apply byte_bound. apply ascii_N_embedding. Qed.

Lemma byte3_enc y c : byte3 ((y mod 16) * 4 + N_of_ascii c / 64) (N_of_ascii c mod 64) = c.
Proof. unfold byte3. rewrite join3 by apply byte_bound. apply ascii_N_embedding. Qed.

(** * Decoding one encoded group *)

Lemma dec_full_enc6 n1 n2 n3 n4 : n1 < 64 -> n2 < 64 -> n3 < 64 -> n4 < 64 ->
  dec_full (enc6 n1) (enc6 n2) (enc6 n3) (enc6 n4) = Some [byte1 n1 n2; byte2 n2 n3; byte3 n3 n4].
Proof. intros. unfold dec_full. now rewrite !dec6_enc6 by assumption. Qed.

Lemma dec_last_enc6_4 n1 n2 n3 n4 : n1 < 64 -> n2 < 64 -> n3 < 64 -> n4 < 64 ->
  dec_last (enc6 n1) (enc6 n2) (enc6 n3) (enc6 n4) = Some [byte1 n1 n2; byte2 n2 n3; byte3 n3 n4].
Proof. intros. unfold dec_last. now rewrite !dec6_enc6, !enc6_not_pad by assumption. Qed.

Lemma dec_last_enc6_3 n1 n2 n3 : n1 < 64 -> n2 < 64 -> n3 < 64 ->
  dec_last (enc6 n1) (enc6 n2) (enc6 n3) PAD = Some [byte1 n1 n2; byte2 n2 n3].
Proof.
  intros. unfold dec_last. rewrite !dec6_enc6, enc6_not_pad by assumption.
  now rewrite Ascii.eqb_refl.
Qed.

Lemma dec_last_enc6_2 n1 n2 : n1 < 64 -> n2 < 64 ->
  dec_last (enc6 n1) (enc6 n2) PAD PAD = Some [byte1 n1 n2].
Proof. intros. unfold dec_last. rewrite !dec6_enc6 by assumption. now rewrite Ascii.eqb_refl. Qed.

Lemma dec_full_enc3 a b c :
  match enc3 a b c with
  | [c1; c2; c3; c4] => dec_full c1 c2 c3 c4 = Some [a; b; c] /\ dec_last c1 c2 c3 c4 = Some [a; b; c]
  | _ => False
  end.
Proof.
  unfold enc3.
  destruct (sextets3 _ _ _ (byte_bound a) (byte_bound b) (byte_bound c)) as (H1 & H2 & H3 & H4).
  rewrite dec_full_enc6, dec_last_enc6_4 by assumption.
  rewrite (byte1_enc a _ (byte_bound b)), (byte2_enc _ b _ (byte_bound c)), byte3_enc.
  split; reflexivity.
Qed.

Lemma dec_go_enc2 a b : dec_go (enc2 a b) = Some [a; b].
Proof.
  unfold enc2. cbn [dec_go].
  destruct (sextets2 _ _ (byte_bound a) (byte_bound b)) as (H1 & H2 & H3).
  rewrite dec_last_enc6_3 by assumption.
  now rewrite (byte1_enc a _ (byte_bound b)), byte2_enc_last.
Qed.

Lemma dec_go_enc1 a : dec_go (enc1 a) = Some [a].
Proof.
  unfold enc1. cbn [dec_go].
  destruct (sextets1 _ (byte_bound a)) as (H1 & H2).
  rewrite dec_last_enc6_2 by assumption.
  now rewrite byte1_enc_last.
Qed.

(** * Induction in groups *)

Lemma list3_ind (P : bytes -> Prop) :
  P [] -> (forall a, P [a]) -> (forall a b, P [a; b]) ->
  (forall a b c r, P r -> P (a :: b :: c :: r)) -> forall x, P x.
Proof.
  intros H0 H1 H2 H3. fix IH 1. intros [|a [|b [|c r]]].
  - exact H0.
  - apply H1.
  - apply H2.
  - apply H3, IH.
Qed.

Lemma list4_ind (P : bytes -> Prop) :
  P [] -> (forall a, P [a]) -> (forall a b, P [a; b]) -> (forall a b c, P [a; b; c]) ->
  (forall a b c d r, P r -> P (a :: b :: c :: d :: r)) -> forall x, P x.
Proof.
  intros H0 H1 H2 H3 H4. fix IH 1. intros [|a [|b [|c [|d r]]]].
  - exact H0.
  - apply H1.
  - apply H2.
  - apply H3.
  - apply H4, IH.
Qed.

(** * Round trip *)

Lemma b64_encode_cons3 a b c r : b64_encode (a :: b :: c :: r) = enc3 a b c ++ b64_encode r.
Proof. reflexivity. Qed.

Lemma b64_encode_nonnil x : x <> [] -> b64_encode x <> [].
Proof. destruct x as [|a [|b [|c r]]]; [congruence| | |]; discriminate. Qed.

Lemma dec_go_quantum c1 c2 c3 c4 r : r <> [] ->
  dec_go (c1 :: c2 :: c3 :: c4 :: r) =
  match dec_full c1 c2 c3 c4, dec_go r with Some x, Some y => Some (x ++ y) | _, _ => None end.
Proof. destruct r; [congruence|reflexivity]. Qed.

Lemma dec_go_encode x : dec_go (b64_encode x) = Some x.
Proof.
  induction x as [|a|a b|a b c r IH] using list3_ind.
  - reflexivity.
  - apply dec_go_enc1.
  - apply dec_go_enc2.
  - rewrite b64_encode_cons3. pose proof (dec_full_enc3 a b c) as H.
    destruct (enc3 a b c) as [|c1 [|c2 [|c3 [|c4 [|c5 t]]]]]; try contradiction.
    destruct H as [Hf Hl]. cbn [app].
    destruct r as [|d r'].
    + exact Hl.
    + rewrite dec_go_quantum by (apply b64_encode_nonnil; discriminate).
      now rewrite Hf, IH.
Qed.

Lemma enc3_chars a b c : forallb b64_char (enc3 a b c) = true.
Proof.
  unfold enc3.
  destruct (sextets3 _ _ _ (byte_bound a) (byte_bound b) (byte_bound c)) as (H1 & H2 & H3 & H4).
  cbn [forallb]. now rewrite !enc6_char by assumption.
Qed.

Lemma enc2_chars a b : forallb b64_char (enc2 a b) = true.
Proof.
  unfold enc2. destruct (sextets2 _ _ (byte_bound a) (byte_bound b)) as (H1 & H2 & H3).
  cbn [forallb]. now rewrite !enc6_char, pad_char by assumption.
Qed.

Lemma enc1_chars a : forallb b64_char (enc1 a) = true.
Proof.
  unfold enc1. destruct (sextets1 _ (byte_bound a)) as (H1 & H2).
  cbn [forallb]. now rewrite !enc6_char, pad_char by assumption.
Qed.

Theorem b64_encode_alphabet : forall x, forallb b64_char (b64_encode x) = true.
Proof.
  intros x. induction x as [|a|a b|a b c r IH] using list3_ind.
  - reflexivity.
  - apply enc1_chars.
  - apply enc2_chars.
  - now rewrite b64_encode_cons3, forallb_app, enc3_chars, IH.
Qed.

Lemma filter_id_forallb (p q : ascii -> bool) l :
  (forall c, p c = true -> q c = true) -> forallb p l = true -> filter q l = l.
Proof.
  intros Hpq. induction l as [|c l IH]; cbn [forallb filter]; [reflexivity|].
  intros H. apply andb_prop in H as [Hc Hl]. rewrite (Hpq _ Hc). f_equal. auto.
Qed.

Lemma b64_encode_no_crlf x : filter not_crlf (b64_encode x) = b64_encode x.
Proof. apply (filter_id_forallb b64_char); [apply b64_char_not_crlf|apply b64_encode_alphabet]. Qed.

Theorem b64_decode_encode : forall x, b64_decode (b64_encode x) = Some x.
Proof. intros x. unfold b64_decode. rewrite b64_encode_no_crlf. apply dec_go_encode. Qed.

(** * Rejection of foreign characters *)

Lemma dec_full_chars c1 c2 c3 c4 y : dec_full c1 c2 c3 c4 = Some y ->
  b64_char c1 = true /\ b64_char c2 = true /\ b64_char c3 = true /\ b64_char c4 = true.
Proof.
  unfold dec_full.
  destruct (dec6 c1) eqn:E1; [|discriminate]. destruct (dec6 c2) eqn:E2; [|discriminate].
  destruct (dec6 c3) eqn:E3; [|discriminate]. destruct (dec6 c4) eqn:E4; [|discriminate].
  intros _. repeat split; first [eapply dec6_some_char; eassumption | apply eqb_pad_char; assumption].
Qed.

Lemma dec_last_chars c1 c2 c3 c4 y : dec_last c1 c2 c3 c4 = Some y ->
  b64_char c1 = true /\ b64_char c2 = true /\ b64_char c3 = true /\ b64_char c4 = true.
Proof.
  unfold dec_last.
  destruct (dec6 c1) eqn:E1; [|discriminate]. destruct (dec6 c2) eqn:E2; [|discriminate].
  destruct (Ascii.eqb c3 PAD) eqn:P3.
  - destruct (Ascii.eqb c4 PAD) eqn:P4; [|discriminate].
    intros _. repeat split; first [eapply dec6_some_char; eassumption | apply eqb_pad_char; assumption].
  - destruct (dec6 c3) eqn:E3; [|discriminate].
    destruct (Ascii.eqb c4 PAD) eqn:P4.
    + intros _. repeat split; first [eapply dec6_some_char; eassumption | apply eqb_pad_char; assumption].
    + destruct (dec6 c4) eqn:E4; [|discriminate].
      intros _. repeat split; first [eapply dec6_some_char; eassumption | apply eqb_pad_char; assumption].
Qed.

Lemma dec_go_chars s : forall y, dec_go s = Some y -> forallb b64_char s = true.
Proof.
  induction s as [|a|a b|a b c|c1 c2 c3 c4 r IH] using list4_ind; intros y H;
    try discriminate H; [reflexivity|].
  destruct r as [|d r'].
  - cbn [dec_go] in H. apply dec_last_chars in H as (H1 & H2 & H3 & H4).
    cbn [forallb]. now rewrite H1, H2, H3, H4.
  - rewrite dec_go_quantum in H by discriminate.
    destruct (dec_full c1 c2 c3 c4) as [x|] eqn:Ef; [|discriminate].
    destruct (dec_go (d :: r')) as [z|] eqn:Er; [|discriminate].
    apply dec_full_chars in Ef as (H1 & H2 & H3 & H4).
    change (forallb b64_char (c1 :: c2 :: c3 :: c4 :: d :: r'))
      with (b64_char c1 && (b64_char c2 && (b64_char c3 && (b64_char c4 && forallb b64_char (d :: r'))))).
    now rewrite H1, H2, H3, H4, (IH z).
Qed.

Theorem b64_decode_rejects : forall s c,
  In c s -> b64_char c = false -> c <> "013"%char -> c <> "010"%char -> b64_decode s = None.
Proof.
  intros s c Hin Hc Hcr Hlf. unfold b64_decode.
  destruct (dec_go (filter not_crlf s)) as [y|] eqn:E; [|reflexivity].
  apply dec_go_chars in E. rewrite forallb_forall in E.
  assert (Hk : not_crlf c = true).
  { unfold not_crlf, CR, LF.
    destruct (Ascii.eqb c "013") eqn:E1; [apply Ascii.eqb_eq in E1; contradiction|].
    destruct (Ascii.eqb c "010") eqn:E2; [apply Ascii.eqb_eq in E2; contradiction|].
    reflexivity. }
  assert (Hf : In c (filter not_crlf s)) by (apply filter_In; split; assumption).
  apply E in Hf. congruence.
Qed.

(** * CR / LF are transparent to the decoder *)

Lemma filter_idem (p : ascii -> bool) l : filter p (filter p l) = filter p l.
Proof.
  induction l as [|c l IH]; cbn [filter]; [reflexivity|].
  destruct (p c) eqn:E; cbn [filter]; [rewrite E; f_equal|]; exact IH.
Qed.

Theorem b64_decode_ignores_crlf : forall s, b64_decode (filter not_crlf s) = b64_decode s.
Proof. intros s. unfold b64_decode. now rewrite filter_idem. Qed.

Theorem b64_decode_app_crlf : forall s t,
  b64_decode (s ++ CR :: LF :: t) = b64_decode (s ++ t).
Proof. intros s t. unfold b64_decode. now rewrite !filter_app. Qed.

(** a successful decode only ever saw alphabet characters, '=', CR and LF *)
Theorem b64_decode_some_chars : forall s y c,
  b64_decode s = Some y -> In c s -> b64_char c = true \/ c = CR \/ c = LF.
Proof.
  intros s y c H Hin.
  destruct (b64_char c) eqn:Hc; [now left|right].
  destruct (Ascii.eqb c CR) eqn:E1; [left; now apply Ascii.eqb_eq|].
  destruct (Ascii.eqb c LF) eqn:E2; [right; now apply Ascii.eqb_eq|].
  apply Ascii.eqb_neq in E1, E2.
  rewrite (b64_decode_rejects s c Hin Hc E1 E2) in H. discriminate.
Qed.

(** * Test vectors (RFC 4648 section 10 and Go's encoding/base64 tests) *)

Example b64_char_count :
  length (filter b64_char (map ascii_of_nat (seq 0 256))) = 65%nat.
Proof. vm_compute. reflexivity. Qed.

Example enc_empty : b64_encode (b "") = b "".
Proof. vm_compute. reflexivity. Qed.
Example enc_f : b64_encode (b "f") = b "Zg==".
Proof. vm_compute. reflexivity. Qed.
Example enc_fo : b64_encode (b "fo") = b "Zm8=".
Proof. vm_compute. reflexivity. Qed.
Example enc_foo : b64_encode (b "foo") = b "Zm9v".
Proof. vm_compute. reflexivity. Qed.
Example enc_foob : b64_encode (b "foob") = b "Zm9vYg==".
Proof. vm_compute. reflexivity. Qed.
Example enc_fooba : b64_encode (b "fooba") = b "Zm9vYmE=".
Proof. vm_compute. reflexivity. Qed.
Example enc_foobar : b64_encode (b "foobar") = b "Zm9vYmFy".
Proof. vm_compute. reflexivity. Qed.
Example enc_high : b64_encode (hx "14fb9c03d97e") = b "FPucA9l+".
Proof. vm_compute. reflexivity. Qed.
Example enc_high2 : b64_encode (hx "14fb9c03d9") = b "FPucA9k=".
Proof. vm_compute. reflexivity. Qed.
Example enc_slash : b64_encode (hx "fbff") = b "+/8=".
Proof. vm_compute. reflexivity. Qed.

Example dec_foobar : b64_decode (b "Zm9vYmFy") = Some (b "foobar").
Proof. vm_compute. reflexivity. Qed.
Example dec_fooba : b64_decode (b "Zm9vYmE=") = Some (b "fooba").
Proof. vm_compute. reflexivity. Qed.
Example dec_foob : b64_decode (b "Zm9vYg==") = Some (b "foob").
Proof. vm_compute. reflexivity. Qed.
Example dec_empty : b64_decode (b "") = Some (b "").
Proof. vm_compute. reflexivity. Qed.
(** line breaks: LF, CR LF, also inside and after the padding *)
Example dec_lf : b64_decode (b "Zm9v" ++ [LF] ++ b "YmFy") = Some (b "foobar").
Proof. vm_compute. reflexivity. Qed.
Example dec_crlf : b64_decode (b "Zm9v" ++ [CR; LF] ++ b "YmFy" ++ [CR; LF]) = Some (b "foobar").
Proof. vm_compute. reflexivity. Qed.
Example dec_lf_in_pad : b64_decode (b "Zg=" ++ [LF] ++ b "=" ++ [LF]) = Some (b "f").
Proof. vm_compute. reflexivity. Qed.
Example dec_only_lf : b64_decode [LF; CR; LF] = Some [].
Proof. vm_compute. reflexivity. Qed.
(** non-zero trailing bits are accepted by the non-strict decoder *)
Example dec_trailing_bits1 : b64_decode (b "Zh==") = Some (b "f").
Proof. vm_compute. reflexivity. Qed.
Example dec_trailing_bits2 : b64_decode (b "Zm9=") = Some (b "fo").
Proof. vm_compute. reflexivity. Qed.
(** errors *)
Example dec_short : b64_decode (b "Zm9") = None.
Proof. vm_compute. reflexivity. Qed.
Example dec_short_pad : b64_decode (b "Zg=") = None.
Proof. vm_compute. reflexivity. Qed.
Example dec_unpadded : b64_decode (b "Zg") = None.
Proof. vm_compute. reflexivity. Qed.
Example dec_pad_early : b64_decode (b "Z===") = None.
Proof. vm_compute. reflexivity. Qed.
Example dec_pad_only : b64_decode (b "====") = None.
Proof. vm_compute. reflexivity. Qed.
Example dec_pad_then_char : b64_decode (b "Zg=a") = None.
Proof. vm_compute. reflexivity. Qed.
Example dec_pad_middle : b64_decode (b "Zg==Zm9v") = None.
Proof. vm_compute. reflexivity. Qed.
Example dec_pad_extra : b64_decode (b "Zm9v====") = None.
Proof. vm_compute. reflexivity. Qed.
Example dec_space : b64_decode (b "Zm9v YmFy") = None.
Proof. vm_compute. reflexivity. Qed.
Example dec_angle : b64_decode (b "Zm9<") = None.
Proof. vm_compute. reflexivity. Qed.
Example dec_urlsafe : b64_decode (b "-_8=") = None.
Proof. vm_compute. reflexivity. Qed.
Example dec_tab : b64_decode (b "Zm9v" ++ ["009"%char]) = None.
Proof. vm_compute. reflexivity. Qed.

Print Assumptions b64_decode_encode.
Print Assumptions b64_encode_alphabet.
Print Assumptions b64_decode_rejects.
Print Assumptions b64_decode_ignores_crlf.
Print Assumptions b64_decode_app_crlf.
Print Assumptions b64_decode_some_chars.
