(** net/url QueryEscape / QueryUnescape (Go 1.23), byte level. *)
From Saml Require Import Base.Bytes.
Open Scope char_scope.

Definition is_alnum (c : ascii) : bool :=
  let n := N_of_ascii c in
  ((48 <=? n) && (n <=? 57) || (65 <=? n) && (n <=? 90) || (97 <=? n) && (n <=? 122))%N.
(** shouldEscape(c, encodeQueryComponent) = false exactly for alphanumerics and - _ . ~ *)
Definition query_keep (c : ascii) : bool :=
  is_alnum c || Ascii.eqb c "-" || Ascii.eqb c "_" || Ascii.eqb c "." || Ascii.eqb c "~".

Definition upper_hex (n : N) : ascii := ascii_of_N (if (n <? 10)%N then n + 48 else n + 55)%N.
Definition escape_byte (c : ascii) : bytes :=
  if Ascii.eqb c " " then ["+"]
  else if query_keep c then [c]
  else let n := N_of_ascii c in ["%"; upper_hex (n / 16); upper_hex (n mod 16)].
Definition go_query_escape (s : bytes) : bytes := flat_map escape_byte s.

Definition ishex (c : ascii) : bool :=
  let n := N_of_ascii c in
  ((48 <=? n) && (n <=? 57) || (65 <=? n) && (n <=? 70) || (97 <=? n) && (n <=? 102))%N.
Definition unhex (c : ascii) : N := hexval c.

Fixpoint go_query_unescape (s : bytes) : option bytes :=
  match s with
  | [] => Some []
  | "%" :: r =>
      match r with
      | h :: l :: r' => if ishex h && ishex l then option_map (cons (ascii_of_N (unhex h * 16 + unhex l))) (go_query_unescape r') else None
      | _ => None
      end
  | "+" :: r => option_map (cons " ") (go_query_unescape r)
  | c :: r => option_map (cons c) (go_query_unescape r)
  end.

Lemma unescape_escape_byte c r :
  go_query_unescape (escape_byte c ++ r) = option_map (cons c) (go_query_unescape r).
Proof. destruct c as [[|] [|] [|] [|] [|] [|] [|] [|]]; reflexivity. Qed.

Theorem query_unescape_escape s : go_query_unescape (go_query_escape s) = Some s.
Proof.
  induction s as [|c s IH]; [reflexivity|].
  change (go_query_escape (c :: s)) with (escape_byte c ++ go_query_escape s).
  now rewrite unescape_escape_byte, IH.
Qed.

(** the escaped form never contains a byte that is special in a query string or in HTML *)
Definition query_safe (c : ascii) : bool := query_keep c || Ascii.eqb c "+" || Ascii.eqb c "%".
Lemma escape_byte_safe c : forallb query_safe (escape_byte c) = true.
Proof. destruct c as [[|] [|] [|] [|] [|] [|] [|] [|]]; reflexivity. Qed.
Theorem query_escape_safe s : forallb query_safe (go_query_escape s) = true.
Proof.
  induction s as [|c s IH]; [reflexivity|].
  change (go_query_escape (c :: s)) with (escape_byte c ++ go_query_escape s).
  now rewrite forallb_app, escape_byte_safe, IH.
Qed.
