(** html/template contextual escapers (Go 1.23.7), byte level.

    Sources read: html/template/html.go (attrEscaper, htmlReplacer, htmlReplacementTable),
    html/template/url.go (urlFilter, isSafeURL, urlNormalizer, urlProcessor, processURLOnto),
    html/template/css.go (isHex), html/template/escape.go (escapeAction), strings.EqualFold.

    Which escapers html/template inserts (escape.go, escapeAction):
      - [value="{{.X}}"], a double-quoted non-URL attribute: state = stateAttr adds nothing, the
        delim switch (delimDoubleQuote, the default arm) adds [_html_template_attrescaper].
      - [<form action="{{.X}}">], a double-quoted URL attribute at urlPartNone: state = stateURL
        adds [_html_template_urlfilter] and falls through to [_html_template_urlnormalizer],
        then the delim switch adds [_html_template_attrescaper].
    The argument is a plain Go [string] (stringify returns it with contentTypePlain), so attrEscaper
    uses htmlReplacementTable (not the Norm table, no stripTags), urlFilter really filters, and
    urlProcessor runs with norm = true.

    Why a BYTE model of htmlReplacer is exact.  htmlReplacer walks runes with
    utf8.DecodeRuneInString and looks r up in a table of length 63 ('>' + 1); only r < 63 can be
    replaced.  Every byte < 0x80 starts a rune in Go's decoder (a multi-byte decode succeeds only
    when all trailing bytes are 0x80..0xBF, so it never swallows an ASCII byte) and decodes to
    itself with width 1.  Any other position yields r >= 0x80 (a valid multi-byte rune, or
    RuneError = 0xFFFD with width 1 for an invalid byte); with badRunes = true the "else if
    badRunes" arm is a no-op, and the bytes are copied verbatim from the ORIGINAL string through
    s[written:i] / s[written:].  So invalid UTF-8 is copied, not replaced, and the
    "&#x%x;" arm for U+FDD0..U+FDEF / U+FFF0..U+FFFF is unreachable for attrEscaper (it is only
    reachable with badRunes = false, i.e. the nospace escaper).  No side condition on runes is needed.
    (Checked against the real template engine: U+FDD0, U+FFFE, U+FFFF, a lone surrogate encoding
    ED A0 80 and FF FE all come out of value="..." unchanged.) *)
From Saml Require Import Base.Bytes.
Open Scope char_scope.

(** * attrEscaper = htmlReplacer(s, htmlReplacementTable, true) *)

Definition esc_byte (c : ascii) : bytes :=
  if Ascii.eqb c "000" then ["239"; "191"; "189"]        (* U+FFFD as UTF-8: EF BF BD *)
  else if Ascii.eqb c """" then b "&#34;"
  else if Ascii.eqb c "&" then b "&amp;"
  else if Ascii.eqb c "'" then b "&#39;"
  else if Ascii.eqb c "+" then b "&#43;"
  else if Ascii.eqb c "<" then b "&lt;"
  else if Ascii.eqb c ">" then b "&gt;"
  else [c].

Definition attr_escape (s : bytes) : bytes := flat_map esc_byte s.

Lemma attr_escape_cons c s : attr_escape (c :: s) = esc_byte c ++ attr_escape s.
Proof. reflexivity. Qed.
Lemma attr_escape_app x y : attr_escape (x ++ y) = attr_escape x ++ attr_escape y.
Proof. apply flat_map_app. Qed.

(** * urlFilter / isSafeURL *)

Definition lower (c : ascii) : ascii :=
  let n := N_of_ascii c in if ((65 <=? n) && (n <=? 90))%N then ascii_of_N (n + 32) else c.

(** strings.Cut(s, ":"): the part before the first ':' , or None when there is no ':' *)
Fixpoint cut_colon (s : bytes) : option bytes :=
  match s with
  | [] => None
  | c :: r => if Ascii.eqb c ":" then Some [] else option_map (cons c) (cut_colon r)
  end.

Definition has_slash (p : bytes) : bool := existsb (fun c => Ascii.eqb c "/") p.

(** strings.EqualFold(p, lit) for a LOWERCASE ASCII literal [lit].  EqualFold is Unicode
    one-rune case folding (fold orbits), not ASCII folding.  The only non-ASCII runes whose fold
    orbit contains an ASCII letter are U+017F (long s, bytes C5 BF; orbit S s) and U+212A (Kelvin sign, bytes E2 84 AA;
    orbit K k).  Both are modelled, so the function is exact for every lowercase ASCII literal; the
    three literals used below contain an 's' (https) but no 'k'.  A non-shortest or otherwise invalid
    encoding decodes to RuneError, which folds with nothing.
    Consequence, confirmed on the real engine: "http" ++ C5 BF ++ "://x" is a SAFE URL for Go. *)
Fixpoint equal_fold (p lit : bytes) {struct lit} : bool :=
  match lit with
  | [] => is_empty p
  | l :: lit' =>
      match p with
      | [] => false
      | c :: p1 =>
          if Ascii.eqb (lower c) l then equal_fold p1 lit'
          else if Ascii.eqb l "s" then
            match p1 with
            | d :: p2 => Ascii.eqb c "197" && Ascii.eqb d "191" && equal_fold p2 lit'
            | [] => false
            end
          else if Ascii.eqb l "k" then
            match p1 with
            | d :: e :: p3 => Ascii.eqb c "226" && Ascii.eqb d "132" && Ascii.eqb e "170" && equal_fold p3 lit'
            | _ => false
            end
          else false
      end
  end.

Definition proto_ok (p : bytes) : bool :=
  has_slash p || equal_fold p (b "http") || equal_fold p (b "https") || equal_fold p (b "mailto").

Definition is_safe_url (s : bytes) : bool :=
  match cut_colon s with
  | None => true
  | Some p => proto_ok p
  end.

Definition failsafe : bytes := b "#ZgotmplZ".       (* "#" + filterFailsafe *)
Definition url_filter (s : bytes) : bytes := if is_safe_url s then s else failsafe.

(** * urlNormalizer = processURLOnto(s, norm = true) *)

Definition is_alnum (c : ascii) : bool :=
  let n := N_of_ascii c in
  ((48 <=? n) && (n <=? 57) || (65 <=? n) && (n <=? 90) || (97 <=? n) && (n <=? 122))%N.
Definition ishex (c : ascii) : bool :=
  let n := N_of_ascii c in
  ((48 <=? n) && (n <=? 57) || (97 <=? n) && (n <=? 102) || (65 <=? n) && (n <=? 70))%N.

(** the bytes the switch keeps unconditionally when norm = true:
    case '!','#','$','&','*','+',',','/',':',';','=','?','@','[',']' (kept because norm),
    case '-','.','_','~', and the default arm's a-z A-Z 0-9.
    NOT kept: ' ( ) (deliberately), the double quote, < > space \ ^ ` { | } controls, DEL,
    every byte >= 0x80. *)
Definition url_keep (c : ascii) : bool :=
  existsb (Ascii.eqb c) (b "!#$&*+,/:;=?@[]-._~") || is_alnum c.

Definition pct (c : ascii) : bytes :=
  let n := N_of_ascii c in ["%"; hexdigit (n / 16); hexdigit (n mod 16)].   (* "%%%02x": lowercase *)

(** [v] = "the two bytes after this one exist and are hex digits" (i+2 < len(s) && isHex && isHex) *)
Definition url_norm_byte (c : ascii) (v : bool) : bytes :=
  if url_keep c || (Ascii.eqb c "%" && v) then [c] else pct c.

Definition two_hex (r : bytes) : bool :=
  match r with h :: l :: _ => ishex h && ishex l | _ => false end.

Fixpoint url_normalize (s : bytes) : bytes :=
  match s with
  | [] => []
  | c :: r => url_norm_byte c (two_hex r) ++ url_normalize r
  end.

(** * the two pipelines *)
Definition esc_attr_value (s : bytes) : bytes := attr_escape s.
Definition esc_action (s : bytes) : bytes := attr_escape (url_normalize (url_filter s)).

(** * attr_escape: forbidden bytes never appear *)

Definition attr_clean (c : ascii) : bool :=
  negb (existsb (Ascii.eqb c) ["000"; """"; "'"; "<"; ">"; "+"]).

Lemma esc_byte_clean c : forallb attr_clean (esc_byte c) = true.
Proof. destruct c as [[|] [|] [|] [|] [|] [|] [|] [|]]; reflexivity. Qed.

Theorem attr_escape_clean s : forallb attr_clean (attr_escape s) = true.
Proof.
  induction s as [|c s IH]; [reflexivity|].
  now rewrite attr_escape_cons, forallb_app, esc_byte_clean, IH.
Qed.

Lemma clean_not_in c s : attr_clean c = false -> forallb attr_clean s = true -> In c s -> False.
Proof.
  intros Hc Hs Hin. rewrite forallb_forall in Hs. apply Hs in Hin. congruence.
Qed.

Theorem attr_escape_no_quote s : In """" (attr_escape s) -> False.
Proof. apply (clean_not_in """"); [reflexivity|apply attr_escape_clean]. Qed.
Theorem attr_escape_no_lt s : In "<" (attr_escape s) -> False.
Proof. apply (clean_not_in "<"); [reflexivity|apply attr_escape_clean]. Qed.
Theorem attr_escape_no_gt s : In ">" (attr_escape s) -> False.
Proof. apply (clean_not_in ">"); [reflexivity|apply attr_escape_clean]. Qed.
Theorem attr_escape_no_apos s : In "'" (attr_escape s) -> False.
Proof. apply (clean_not_in "'"); [reflexivity|apply attr_escape_clean]. Qed.
Theorem attr_escape_no_nul s : In "000" (attr_escape s) -> False.
Proof. apply (clean_not_in "000"); [reflexivity|apply attr_escape_clean]. Qed.
Theorem attr_escape_no_plus s : In "+" (attr_escape s) -> False.
Proof. apply (clean_not_in "+"); [reflexivity|apply attr_escape_clean]. Qed.

(** * attr_escape: every '&' in the output starts one of the six references.
    The "&#x%x;" references of htmlReplacer's last arm cannot occur (badRunes = true), so the
    list is exactly the six table entries. *)

Definition amp_refs : list bytes := [b "#34;"; b "amp;"; b "#39;"; b "#43;"; b "lt;"; b "gt;"].

Fixpoint amp_ok (s : bytes) : bool :=
  match s with
  | [] => true
  | c :: r => (if Ascii.eqb c "&" then existsb (has_prefix r) amp_refs else true) && amp_ok r
  end.

Lemma amp_ok_esc_byte c t : amp_ok (esc_byte c ++ t) = amp_ok t.
Proof. destruct c as [[|] [|] [|] [|] [|] [|] [|] [|]]; reflexivity. Qed.

Theorem attr_escape_amp s : amp_ok (attr_escape s) = true.
Proof.
  induction s as [|c s IH]; [reflexivity|].
  now rewrite attr_escape_cons, amp_ok_esc_byte.
Qed.

(** * decoding: what the HTML tokenizer's "attribute value (double-quoted) state" does to these
    six references (character reference state, each is terminated by ';').  Every other byte is
    appended as is; an '&' that does not start one of the six is left alone (on the image of
    [attr_escape] that case does not arise, by [attr_escape_amp], so agreement with a full
    HTML5 reference decoder on that image only needs these six).
    Not modelled here: the input-stream preprocessor, which turns CR LF and lone CR into LF before
    tokenizing; see [attr_escape_keeps_no_cr] below. *)
Fixpoint html_attr_unescape (s : bytes) : bytes :=
  match s with
  | [] => []
  | c :: r =>
      if Ascii.eqb c "&" then
        match r with
        | "#" :: "3" :: "4" :: ";" :: r' => """" :: html_attr_unescape r'
        | "#" :: "3" :: "9" :: ";" :: r' => "'" :: html_attr_unescape r'
        | "#" :: "4" :: "3" :: ";" :: r' => "+" :: html_attr_unescape r'
        | "a" :: "m" :: "p" :: ";" :: r' => "&" :: html_attr_unescape r'
        | "l" :: "t" :: ";" :: r' => "<" :: html_attr_unescape r'
        | "g" :: "t" :: ";" :: r' => ">" :: html_attr_unescape r'
        | _ => c :: html_attr_unescape r
        end
      else c :: html_attr_unescape r
  end.

(** what one input byte looks like after escape + decode: NUL cannot be carried *)
Definition nul_repl (c : ascii) : bytes :=
  if Ascii.eqb c "000" then ["239"; "191"; "189"] else [c].

Lemma unescape_esc_byte c t :
  html_attr_unescape (esc_byte c ++ t) = nul_repl c ++ html_attr_unescape t.
Proof. destruct c as [[|] [|] [|] [|] [|] [|] [|] [|]]; reflexivity. Qed.

Theorem html_attr_roundtrip_nul s :
  html_attr_unescape (attr_escape s) = flat_map nul_repl s.
Proof.
  induction s as [|c s IH]; [reflexivity|].
  rewrite attr_escape_cons, unescape_esc_byte, IH. reflexivity.
Qed.

Definition no_nul (s : bytes) : bool := forallb (fun c => negb (Ascii.eqb c "000")) s.

Lemma nul_repl_id s : no_nul s = true -> flat_map nul_repl s = s.
Proof.
  induction s as [|c s IH]; [reflexivity|].
  cbn [no_nul forallb flat_map]. intros H. apply andb_prop in H as [H1 H2].
  unfold nul_repl at 1. destruct (Ascii.eqb c "000"); [discriminate|].
  cbn [app]. f_equal. apply IH, H2.
Qed.

Theorem html_attr_roundtrip s : no_nul s = true -> html_attr_unescape (attr_escape s) = s.
Proof. intros H. rewrite html_attr_roundtrip_nul. apply nul_repl_id, H. Qed.

(** newline normalisation of the HTML input stream (CR LF -> LF, CR -> LF): the escaper neither
    removes nor introduces CR, so a CR-free value is untouched by that step, and a value with CR
    does NOT survive a browser round trip (a Go-side fact about the escaper, a browser-side
    fact about the loss). *)
Definition no_cr (s : bytes) : bool := forallb (fun c => negb (Ascii.eqb c "013")) s.
Fixpoint html_newline_norm (s : bytes) : bytes :=
  match s with
  | [] => []
  | c :: r =>
      if Ascii.eqb c "013" then
        match r with
        | d :: r' => if Ascii.eqb d "010" then "010" :: html_newline_norm r' else "010" :: html_newline_norm r
        | [] => ["010"]
        end
      else c :: html_newline_norm r
  end.

Lemma esc_byte_no_cr c : no_cr (esc_byte c) = negb (Ascii.eqb c "013").
Proof. destruct c as [[|] [|] [|] [|] [|] [|] [|] [|]]; reflexivity. Qed.

Theorem attr_escape_keeps_no_cr s : no_cr (attr_escape s) = no_cr s.
Proof.
  induction s as [|c s IH]; [reflexivity|].
  rewrite attr_escape_cons. unfold no_cr in *. rewrite forallb_app.
  cbn [forallb]. rewrite IH. f_equal. apply esc_byte_no_cr.
Qed.

Lemma newline_norm_id t : no_cr t = true -> html_newline_norm t = t.
Proof.
  induction t as [|c t IH]; [reflexivity|].
  cbn [no_cr forallb html_newline_norm]. intros H. apply andb_prop in H as [H1 H2].
  destruct (Ascii.eqb c "013"); [discriminate|]. f_equal. apply IH, H2.
Qed.

Theorem html_browser_roundtrip s :
  no_nul s = true -> no_cr s = true ->
  html_attr_unescape (html_newline_norm (attr_escape s)) = s.
Proof.
  intros Hn Hc. rewrite newline_norm_id; [apply html_attr_roundtrip, Hn|].
  now rewrite attr_escape_keeps_no_cr.
Qed.

(** * urlFilter *)

Theorem url_filter_safe s : is_safe_url s = false -> url_filter s = b "#ZgotmplZ".
Proof. intros H. unfold url_filter. now rewrite H. Qed.

Theorem url_filter_id s : is_safe_url s = true -> url_filter s = s.
Proof. intros H. unfold url_filter. now rewrite H. Qed.

(** ASCII case-insensitive prefix *)
Definition has_prefix_ci (s p : bytes) : bool := has_prefix (map lower s) (map lower p).

(** is_safe_url does not look at ASCII case *)
Lemma lower_idem c : lower (lower c) = lower c.
Proof. destruct c as [[|] [|] [|] [|] [|] [|] [|] [|]]; reflexivity. Qed.
(** comparing against a byte that is not a letter does not see [lower] *)
Lemma lower_eqb_fixed c d :
  is_alnum d = false -> Ascii.eqb (lower c) d = Ascii.eqb c d.
Proof.
  intros Hd.
  destruct (Ascii.eqb c d) eqn:E.
  - apply Ascii.eqb_eq in E. subst c.
    revert Hd. destruct d as [[|] [|] [|] [|] [|] [|] [|] [|]]; intros Hd; try discriminate Hd; reflexivity.
  - apply Ascii.eqb_neq in E. apply Ascii.eqb_neq. intros E'. apply E. subst d.
    revert Hd. destruct c as [[|] [|] [|] [|] [|] [|] [|] [|]]; intros Hd; try discriminate Hd; reflexivity.
Qed.

Lemma cut_colon_lower s : cut_colon (map lower s) = option_map (map lower) (cut_colon s).
Proof.
  induction s as [|c s IH]; [reflexivity|].
  cbn [map cut_colon]. rewrite (lower_eqb_fixed c ":") by reflexivity.
  destruct (Ascii.eqb c ":"); [reflexivity|].
  rewrite IH. destruct (cut_colon s); reflexivity.
Qed.

Lemma has_slash_lower p : has_slash (map lower p) = has_slash p.
Proof.
  induction p as [|c p IH]; [reflexivity|].
  unfold has_slash in *. cbn [map existsb]. rewrite IH.
  now rewrite (lower_eqb_fixed c "/") by reflexivity.
Qed.

Lemma equal_fold_lower lit : forall p, equal_fold (map lower p) lit = equal_fold p lit.
Proof.
  induction lit as [|l lit IH]; intros p.
  - destruct p; reflexivity.
  - destruct p as [|c p1]; [reflexivity|].
    cbn [map equal_fold]. rewrite lower_idem, IH.
    destruct (Ascii.eqb (lower c) l); [reflexivity|].
    rewrite (lower_eqb_fixed c "197"), (lower_eqb_fixed c "226") by reflexivity.
    destruct p1 as [|d p2]; [reflexivity|].
    cbn [map]. rewrite (lower_eqb_fixed d "191"), (lower_eqb_fixed d "132"), IH by reflexivity.
    destruct p2 as [|e p3]; [reflexivity|].
    cbn [map]. now rewrite (lower_eqb_fixed e "170"), IH by reflexivity.
Qed.

Lemma is_safe_url_lower s : is_safe_url (map lower s) = is_safe_url s.
Proof.
  unfold is_safe_url. rewrite cut_colon_lower.
  destruct (cut_colon s) as [p|]; [|reflexivity].
  cbn [option_map]. unfold proto_ok.
  now rewrite has_slash_lower, !equal_fold_lower.
Qed.

Lemma unsafe_scheme_ci s P :
  (forall r, is_safe_url (P ++ r) = false) -> has_prefix (map lower s) P = true -> is_safe_url s = false.
Proof.
  intros HP H. rewrite <- is_safe_url_lower. rewrite (has_prefix_split _ _ H). apply HP.
Qed.

Theorem javascript_unsafe s : has_prefix_ci s (b "javascript:") = true -> is_safe_url s = false.
Proof. apply unsafe_scheme_ci. intros r. reflexivity. Qed.
Theorem data_unsafe s : has_prefix_ci s (b "data:") = true -> is_safe_url s = false.
Proof. apply unsafe_scheme_ci. intros r. reflexivity. Qed.
Theorem vbscript_unsafe s : has_prefix_ci s (b "vbscript:") = true -> is_safe_url s = false.
Proof. apply unsafe_scheme_ci. intros r. reflexivity. Qed.

(** the general statement: any scheme that is not one of the three, with no '/' before the ':' *)
Theorem unsafe_scheme s p :
  cut_colon s = Some p -> proto_ok p = false -> esc_action s = b "#ZgotmplZ".
Proof.
  intros H1 H2. unfold esc_action, url_filter, is_safe_url. rewrite H1, H2. reflexivity.
Qed.

Lemma esc_action_failsafe : attr_escape (url_normalize (b "#ZgotmplZ")) = b "#ZgotmplZ".
Proof. reflexivity. Qed.

Theorem esc_action_no_script s :
  has_prefix_ci s (b "javascript:") = true -> esc_action s = attr_escape (url_normalize (b "#ZgotmplZ")).
Proof. intros H. unfold esc_action. now rewrite (url_filter_safe _ (javascript_unsafe _ H)). Qed.
Theorem esc_action_no_data s :
  has_prefix_ci s (b "data:") = true -> esc_action s = attr_escape (url_normalize (b "#ZgotmplZ")).
Proof. intros H. unfold esc_action. now rewrite (url_filter_safe _ (data_unsafe _ H)). Qed.
Theorem esc_action_no_vbscript s :
  has_prefix_ci s (b "vbscript:") = true -> esc_action s = attr_escape (url_normalize (b "#ZgotmplZ")).
Proof. intros H. unfold esc_action. now rewrite (url_filter_safe _ (vbscript_unsafe _ H)). Qed.

(** * urlNormalizer: output alphabet *)

(** everything the normalizer can emit: a kept byte or '%' (hex digits are kept bytes) *)
Definition url_out (c : ascii) : bool := url_keep c || Ascii.eqb c "%".

Lemma url_norm_byte_out c v : forallb url_out (url_norm_byte c v) = true.
Proof. destruct v; destruct c as [[|] [|] [|] [|] [|] [|] [|] [|]]; reflexivity. Qed.

Theorem url_normalize_out s : forallb url_out (url_normalize s) = true.
Proof.
  induction s as [|c s IH]; [reflexivity|].
  cbn [url_normalize]. now rewrite forallb_app, url_norm_byte_out, IH.
Qed.

(** after the attribute escaper: printable ASCII (0x21..0x7E) without the double quote and
    without ' < > + ` \ ( ) *)
Definition action_out (c : ascii) : bool :=
  let n := N_of_ascii c in
  ((33 <=? n) && (n <=? 126))%N && negb (existsb (Ascii.eqb c) ["""";  "'"; "<"; ">"; "+"; "`"; "\"; "("; ")"]).

Lemma esc_byte_action_out c : url_out c = true -> forallb action_out (esc_byte c) = true.
Proof. destruct c as [[|] [|] [|] [|] [|] [|] [|] [|]]; intros H; try discriminate H; reflexivity. Qed.

Lemma attr_escape_action_out t : forallb url_out t = true -> forallb action_out (attr_escape t) = true.
Proof.
  induction t as [|c t IH]; [reflexivity|].
  cbn [forallb]. intros H. apply andb_prop in H as [H1 H2].
  now rewrite attr_escape_cons, forallb_app, esc_byte_action_out, IH.
Qed.

Theorem esc_action_charset s : forallb action_out (esc_action s) = true.
Proof. apply attr_escape_action_out, url_normalize_out. Qed.

Theorem esc_action_no_quote s : In """" (esc_action s) -> False.
Proof. apply attr_escape_no_quote. Qed.
Theorem esc_action_no_lt s : In "<" (esc_action s) -> False.
Proof. apply attr_escape_no_lt. Qed.
Theorem esc_action_no_gt s : In ">" (esc_action s) -> False.
Proof. apply attr_escape_no_gt. Qed.
Theorem esc_action_no_apos s : In "'" (esc_action s) -> False.
Proof. apply attr_escape_no_apos. Qed.
Theorem esc_action_no_nul s : In "000" (esc_action s) -> False.
Proof. apply attr_escape_no_nul. Qed.
Theorem esc_action_no_space s : In " " (esc_action s) -> False.
Proof.
  intros H. pose proof (esc_action_charset s) as Hc. rewrite forallb_forall in Hc.
  apply Hc in H. discriminate H.
Qed.

(** the normalizer never emits NUL or CR, so what the browser reads back from action="..." is
    exactly the normalized, filtered URL *)
Lemma url_out_no_nul t : forallb url_out t = true -> no_nul t = true.
Proof.
  induction t as [|c t IH]; [reflexivity|].
  cbn [forallb no_nul]. intros H. apply andb_prop in H as [H1 H2].
  fold (no_nul t). rewrite (IH H2), andb_true_r.
  destruct c as [[|] [|] [|] [|] [|] [|] [|] [|]]; try reflexivity; discriminate H1.
Qed.

Theorem esc_action_unescape s :
  html_attr_unescape (esc_action s) = url_normalize (url_filter s).
Proof. apply html_attr_roundtrip, url_out_no_nul, url_normalize_out. Qed.

(** * examples (each agrees with the output of the real html/template engine, Go 1.23.7) *)

Example ex_attr_specials :
  esc_attr_value (b "a""b<c>&'+") = b "a&#34;b&lt;c&gt;&amp;&#39;&#43;".
Proof. vm_compute. reflexivity. Qed.

(** in a URL attribute the normalizer keeps '&' and '=' (and '+'), then the attribute escaper
    rewrites '&' to "&amp;" and leaves '=' alone *)
Example ex_action_https :
  esc_action (b "https://sp.example/acs?x=1&y=2") = b "https://sp.example/acs?x=1&amp;y=2".
Proof. vm_compute. reflexivity. Qed.
Example ex_value_https :
  esc_attr_value (b "https://sp.example/acs?x=1&y=2") = b "https://sp.example/acs?x=1&amp;y=2".
Proof. vm_compute. reflexivity. Qed.

(** the same nine bytes through the URL pipeline: quote, angle brackets and apostrophe are
    percent-encoded by the normalizer, '&' and '+' are kept and then HTML-escaped *)
Example ex_action_specials :
  esc_action (b "a""b<c>&'+") = b "a%22b%3cc%3e&amp;%27&#43;".
Proof. vm_compute. reflexivity. Qed.

Example ex_action_javascript : esc_action (b "javascript:alert(1)") = b "#ZgotmplZ".
Proof. vm_compute. reflexivity. Qed.
Example ex_value_javascript : esc_attr_value (b "javascript:alert(1)") = b "javascript:alert(1)".
Proof. vm_compute. reflexivity. Qed.
Example ex_action_javascript_mixed : esc_action (b "JaVaScRiPt:1") = b "#ZgotmplZ".
Proof. vm_compute. reflexivity. Qed.

(** space and e-acute (C3 A9) *)
Example ex_action_space_nonascii :
  esc_action (b "/a b" ++ hx "c3a9") = b "/a%20b%c3%a9".
Proof. vm_compute. reflexivity. Qed.
Example ex_value_space_nonascii :
  esc_attr_value (b "/a b" ++ hx "c3a9") = b "/a b" ++ hx "c3a9".
Proof. vm_compute. reflexivity. Qed.

Example ex_norm_bad_pct : url_normalize (b "%zz") = b "%25zz".
Proof. vm_compute. reflexivity. Qed.
Example ex_norm_good_pct : url_normalize (b "%41") = b "%41".
Proof. vm_compute. reflexivity. Qed.
Example ex_norm_short_pct : url_normalize (b "%4") = b "%254".
Proof. vm_compute. reflexivity. Qed.
Example ex_norm_mixed_pct : url_normalize (b "%4G%aF") = b "%254G%aF".
Proof. vm_compute. reflexivity. Qed.
Example ex_norm_punct : url_normalize (b "(')`\^{|}~!*") = b "%28%27%29%60%5c%5e%7b%7c%7d~!*".
Proof. vm_compute. reflexivity. Qed.

(** NUL, invalid UTF-8 and non-characters through the attribute escaper *)
Example ex_value_nul : esc_attr_value (hx "610062") = hx "61efbfbd62".
Proof. vm_compute. reflexivity. Qed.
Example ex_action_nul : esc_action (hx "610062") = b "a%00b".
Proof. vm_compute. reflexivity. Qed.
Example ex_value_invalid_utf8 : esc_attr_value (hx "fffeefb790efbfbeeda080") = hx "fffeefb790efbfbeeda080".
Proof. vm_compute. reflexivity. Qed.

(** filter corner cases *)
Example ex_safe_slash_before_colon : is_safe_url (b "a/b:c") = true.
Proof. vm_compute. reflexivity. Qed.
Example ex_safe_mailto_upper : is_safe_url (b "MAILTO:x") = true.
Proof. vm_compute. reflexivity. Qed.
Example ex_safe_relative : is_safe_url (b "/saml/acs") = true.
Proof. vm_compute. reflexivity. Qed.
Example ex_unsafe_empty_scheme : is_safe_url (b ":x") = false.
Proof. vm_compute. reflexivity. Qed.
(** EqualFold is Unicode folding: "http" + U+017F is accepted as "https" (and then normalized) *)
Example ex_safe_long_s : esc_action (b "http" ++ hx "c5bf" ++ b "://x") = b "http%c5%bf://x".
Proof. vm_compute. reflexivity. Qed.
Example ex_unsafe_long_s_javascript : esc_action (b "java" ++ hx "c5bf" ++ b "cript:1") = b "#ZgotmplZ".
Proof. vm_compute. reflexivity. Qed.
Example ex_unsafe_kelvin : is_safe_url (hx "e284aa3a") = false.
Proof. vm_compute. reflexivity. Qed.

Print Assumptions attr_escape_no_quote.
Print Assumptions attr_escape_no_lt.
Print Assumptions attr_escape_no_gt.
Print Assumptions attr_escape_no_apos.
Print Assumptions attr_escape_no_nul.
Print Assumptions attr_escape_amp.
Print Assumptions html_attr_roundtrip.
Print Assumptions html_attr_roundtrip_nul.
Print Assumptions html_browser_roundtrip.
Print Assumptions url_filter_safe.
Print Assumptions esc_action_no_script.
Print Assumptions esc_action_no_data.
Print Assumptions esc_action_no_vbscript.
Print Assumptions unsafe_scheme.
Print Assumptions esc_action_no_quote.
Print Assumptions esc_action_charset.
Print Assumptions esc_action_unescape.
