// dump: prints sample wire messages of the IdP (development aid)
package main

import (
	"fmt"
	"io"
	stdlog "log"
	"net/http"

	"github.com/zitadel/logging"

	"verif/harness/internal/idp"
)

func main() {
	logging.SetOutput(io.Discard)
	stdlog.SetOutput(io.Discard)
	env, err := idp.NewEnv(idp.EnvConfig{Issuer: "https://idp.example/saml"})
	if err != nil {
		panic(err)
	}
	st := env.Storage
	_, _, sp, _ := idp.Keys()
	meta := idp.SPMeta{EntityID: "https://sp.example/metadata", ACS: []idp.ACS{{Index: "0", Binding: idp.PostBinding, Location: "https://sp.example/acs"}},
		SLO: []idp.SLO{{Binding: idp.PostBinding, Location: "https://sp.example/slo"}}, Certs: []idp.CertEntry{{Use: "signing", Text: sp.CertB64()}}}
	st.Register("app-1", meta)
	st.Users["u1"] = &idp.User{Email: "a@b.c", FullName: "Full <Name>", GivenName: "Given", Surname: "Sur", Username: "user&name", UserID: "u1",
		Custom: []idp.CustomAttr{{Name: "groups", Friendly: "Groups", Format: "urn:fmt", Values: []string{"g1", "g\"2"}}}}
	st.Logins["user&name"] = st.Users["u1"]
	for _, bn := range []string{idp.PostBinding, idp.RedirBinding} {
		st.Requests["r1"] = &idp.AuthReq{ID: "r1", AppID: "app-1", RelayState: "rs", ACS: "https://sp.example/acs", Binding: bn, AuthReqID: "_authn1", UserID: "u1", IsDone: true}
		rep := env.Do(idp.ReqSpec{Method: http.MethodGet, Path: "/login", Query: []idp.Param{idp.Q("id", "r1")}}.HTTP())
		fmt.Printf("=== callback %s kind=%s code=%d\n%s\n", bn, rep.Kind, rep.Code, rep.Msg)
		if rep.Kind == "saml-redirect" {
			fmt.Println("LOCATION:", rep.Location)
		}
	}
	st.Requests["r2"] = &idp.AuthReq{ID: "r2", AppID: "app-1", RelayState: "rs", ACS: "https://sp.example/acs", Binding: idp.PostBinding, AuthReqID: "_authn2", UserID: "u1", IsDone: false}
	rep := env.Do(idp.ReqSpec{Method: http.MethodGet, Path: "/login", Query: []idp.Param{idp.Q("id", "r2")}}.HTTP())
	fmt.Printf("=== callback not done kind=%s\n%s\n=== page\n%s\n", rep.Kind, rep.Msg, rep.Body)
	rep = env.Do(idp.ReqSpec{Method: http.MethodGet, Path: "/metadata"}.HTTP())
	fmt.Printf("=== metadata code=%d\n%s\n", rep.Code, rep.Body)
	lr := `<samlp:LogoutRequest xmlns:samlp="urn:oasis:names:tc:SAML:2.0:protocol" xmlns:saml="urn:oasis:names:tc:SAML:2.0:assertion" ID="_lo1" Version="2.0" IssueInstant="2020-01-01T00:00:00Z"><saml:Issuer>https://sp.example/metadata</saml:Issuer><saml:NameID>user</saml:NameID></samlp:LogoutRequest>`
	rep = env.Do(idp.ReqSpec{Method: http.MethodPost, Path: "/SLO", Body: []idp.Param{idp.Q("SAMLRequest", idp.B64([]byte(lr))), idp.Q("RelayState", "x")}}.HTTP())
	fmt.Printf("=== logout kind=%s code=%d\n%s\n", rep.Kind, rep.Code, rep.Msg)
	aq := `<soap:Envelope xmlns:soap="http://schemas.xmlsoap.org/soap/envelope/"><soap:Body><samlp:AttributeQuery xmlns:samlp="urn:oasis:names:tc:SAML:2.0:protocol" xmlns:saml="urn:oasis:names:tc:SAML:2.0:assertion" ID="_aq1" Version="2.0" IssueInstant="2020-01-01T00:00:00Z"><saml:Issuer>https://sp.example/metadata</saml:Issuer><saml:Subject><saml:NameID>user&amp;name</saml:NameID></saml:Subject></samlp:AttributeQuery></soap:Body></soap:Envelope>`
	rep = env.Do(idp.ReqSpec{Method: http.MethodPost, Path: "/attribute", RawBody: &aq}.HTTP())
	fmt.Printf("=== attrquery kind=%s code=%d\n%s\n", rep.Kind, rep.Code, rep.Body)
}
