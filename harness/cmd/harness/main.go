// harness: drives the real zitadel/saml code for one property and emits cases for the Coq model.
//
//	harness <property> --out DIR [--tier quick|thorough] [--seed N]
package main

import (
	"flag"
	"fmt"
	"io"
	stdlog "log"
	"os"
	"strings"

	"github.com/zitadel/logging"

	"verif/harness/internal/attrquery"
	"verif/harness/internal/c04"
	"verif/harness/internal/c07"
	"verif/harness/internal/c09"
	"verif/harness/internal/c10"
	"verif/harness/internal/c11"
	"verif/harness/internal/c14"
	"verif/harness/internal/c15"
	"verif/harness/internal/c16"
	"verif/harness/internal/c17"
	"verif/harness/internal/c18"
	"verif/harness/internal/c19"
	"verif/harness/internal/c20"
	"verif/harness/internal/callback"
	"verif/harness/internal/logout"
	"verif/harness/internal/sso"
)

func main() {
	if len(os.Args) < 2 {
		fmt.Fprintln(os.Stderr, "usage: harness <property> --out DIR [--tier T] [--seed N]")
		os.Exit(2)
	}
	prop := strings.ToUpper(os.Args[1])
	fs := flag.NewFlagSet("harness", flag.ExitOnError)
	out := fs.String("out", "", "output directory")
	tier := fs.String("tier", "quick", "quick|thorough")
	seed := fs.Int64("seed", 1, "PRNG seed")
	fs.Parse(os.Args[2:])
	if *out == "" {
		fmt.Fprintln(os.Stderr, "--out required")
		os.Exit(2)
	}
	logging.SetOutput(io.Discard)
	stdlog.SetOutput(io.Discard)
	var err error
	switch prop {
	case "C04":
		err = c04.Run(*out, *tier, *seed)
	case "C07":
		err = c07.Run(*out, *tier, *seed)
	case "C09":
		err = c09.Run(*out, *tier, *seed)
	case "C10":
		err = c10.Run(*out, *tier, *seed)
	case "C01", "C03":
		err = callback.Run(prop, *out, *tier, *seed)
	case "C11":
		err = c11.Run(*out, *tier, *seed)
	case "C12":
		err = attrquery.Run(*out, *tier, *seed)
	case "C13":
		err = logout.Run(prop, *out, *tier, *seed)
	case "C02", "C05", "C06", "C08":
		err = sso.Run(prop, *out, *tier, *seed)
	case "C14":
		err = c14.Run(*out, *tier, *seed)
	case "C15":
		err = c15.Run(*out, *tier, *seed)
	case "C16":
		err = c16.Run(*out, *tier, *seed)
	case "C17":
		err = c17.Run(*out, *tier, *seed)
	case "C18":
		err = c18.Run(*out, *tier, *seed)
	case "C19":
		err = c19.Run(*out, *tier, *seed)
	case "C20":
		err = c20.Run(*out, *tier, *seed)
	default:
		err = fmt.Errorf("unknown property %s", prop)
	}
	if err != nil {
		fmt.Fprintln(os.Stderr, "harness:", err)
		os.Exit(3)
	}
}
