package c18

import (
	"fmt"
	"reflect"

	"verif/harness/internal/coqgen"
	"verif/harness/internal/idp"
)

// unmCase: the Coq case comparing what a library decoder made of a document with the schema-driven model of Unmarshal;
// decoded is a pointer to the struct the decoder filled (its content is ignored when derr != nil)
func unmCase(id int, doc []byte, decoded interface{}, derr error) (string, bool) {
	root, trailing, err := idp.ResolvedTree(doc)
	if err != nil {
		return "", false
	}
	if root.HasContent("BaseID") {
		return "", false // raw inner XML is outside the model
	}
	obs := "None"
	if derr == nil {
		g, gerr := gvalOf(reflect.ValueOf(decoded).Elem())
		if gerr != nil {
			return "", false
		}
		obs = "(Some " + g + ")"
	}
	return fmt.Sprintf("KUnm %s %s %s %s %s", coqgen.Z(int64(id)), coqStr(typeKey(reflect.TypeOf(decoded))), coqgen.Bool(trailing), root.Coq(), obs), true
}
