// Package c18: wire encoding. Documents produced by the IdP with hostile data are (1) compared byte for byte with the
// Coq print of their raw token tree, (2) decoded by the library's decoders and by a generic parser and compared with
// the values put in, (3) compared in shape with the same document produced from benign data. The codec functions run
// against the Coq codec model with compress/flate as oracle.
package c18

import (
	"bytes"
	"compress/flate"
	"encoding/base64"
	"encoding/xml"
	"fmt"
	"io"
	"math/rand"
	"net/http"
	"reflect"
	"sort"
	"strings"
	"unicode/utf8"

	"github.com/zitadel/saml/pkg/provider"
	samlxml "github.com/zitadel/saml/pkg/provider/xml"
	"github.com/zitadel/saml/pkg/provider/xml/md"
	"github.com/zitadel/saml/pkg/provider/xml/saml"
	"github.com/zitadel/saml/pkg/provider/xml/samlp"
	"github.com/zitadel/saml/pkg/provider/xml/soap"
	"github.com/zitadel/saml/pkg/provider/xml/xml_dsig"

	"verif/harness/internal/coqgen"
	"verif/harness/internal/idp"
	"verif/harness/internal/sso"
)

// ---------- raw token tree ----------

type rnode struct {
	name  string
	attrs [][2]string
	kids  []*rnode
	text  string
}

func rawName(n xml.Name) string {
	if n.Space != "" {
		return n.Space + ":" + n.Local
	}
	return n.Local
}

// rawTree tokenises without namespace translation; header reports the fixed XML declaration + newline.
func rawTree(data []byte) (root *rnode, header bool, err error) {
	if bytes.HasPrefix(data, []byte(xml.Header)) {
		header = true
		data = data[len(xml.Header):]
	}
	d := xml.NewDecoder(bytes.NewReader(data))
	d.Strict = true
	var stack []*rnode
	for {
		tok, e := d.RawToken()
		if e == io.EOF {
			break
		}
		if e != nil {
			return nil, header, e
		}
		switch t := tok.(type) {
		case xml.StartElement:
			n := &rnode{name: rawName(t.Name)}
			for _, a := range t.Attr {
				n.attrs = append(n.attrs, [2]string{rawName(a.Name), a.Value})
			}
			if len(stack) == 0 {
				if root != nil {
					return nil, header, fmt.Errorf("second root element")
				}
				root = n
			} else {
				p := stack[len(stack)-1]
				if p.text != "" {
					return nil, header, fmt.Errorf("mixed content in %s", p.name)
				}
				p.kids = append(p.kids, n)
			}
			stack = append(stack, n)
		case xml.EndElement:
			if len(stack) == 0 || stack[len(stack)-1].name != rawName(t.Name) {
				return nil, header, fmt.Errorf("unbalanced end tag %s", rawName(t.Name))
			}
			stack = stack[:len(stack)-1]
		case xml.CharData:
			if len(stack) == 0 {
				return nil, header, fmt.Errorf("character data outside the root")
			}
			p := stack[len(stack)-1]
			if len(p.kids) > 0 {
				return nil, header, fmt.Errorf("mixed content in %s", p.name)
			}
			p.text += string(t)
		default:
			return nil, header, fmt.Errorf("unexpected token %T", tok)
		}
	}
	if root == nil || len(stack) != 0 {
		return nil, header, fmt.Errorf("no complete root element")
	}
	return root, header, nil
}

func (n *rnode) coq() string {
	var as []string
	for _, a := range n.attrs {
		as = append(as, "("+coqgen.Bytes(a[0])+", "+coqgen.Bytes(a[1])+")")
	}
	content := "(Text " + coqgen.Bytes(n.text) + ")"
	if len(n.kids) > 0 {
		var ks []string
		for _, k := range n.kids {
			ks = append(ks, k.coq())
		}
		content = "(Kids " + coqgen.List(ks) + ")"
	}
	return "(El " + coqgen.Bytes(n.name) + " None " + coqgen.List(as) + " " + content + ")"
}

// shape: element and attribute names only
func (n *rnode) shape(sb *strings.Builder) {
	sb.WriteString("<" + n.name)
	for _, a := range n.attrs {
		sb.WriteString(" " + a[0])
	}
	sb.WriteString(">")
	for _, k := range n.kids {
		k.shape(sb)
	}
	sb.WriteString("</>")
}

// values: every attribute value and leaf text
func (n *rnode) values(out *[]string) {
	for _, a := range n.attrs {
		*out = append(*out, a[1])
	}
	if len(n.kids) == 0 && n.text != "" {
		*out = append(*out, n.text)
	}
	for _, k := range n.kids {
		k.values(out)
	}
}

// sanitize is what a conformant encoder may do to characters XML cannot carry: replace them by U+FFFD.
func sanitize(s string) string {
	var sb strings.Builder
	for i := 0; i < len(s); {
		r, w := utf8.DecodeRuneInString(s[i:])
		ok := !(r == utf8.RuneError && w == 1) && (r == 0x9 || r == 0xA || r == 0xD || r >= 0x20 && r <= 0xD7FF || r >= 0xE000 && r <= 0xFFFD || r >= 0x10000 && r <= 0x10FFFF)
		if ok {
			sb.WriteString(s[i : i+w])
		} else {
			sb.WriteString("�")
		}
		i += w
	}
	return sb.String()
}

func legal(s string) bool { return sanitize(s) == s }

var hostile = []string{"plain", "<x>&\"'", "a&amp;b&#60;", "]]>", "<![CDATA[x]]>", "<!--", "--><z/>", "</saml:Issuer><evil/>", "\" onload=\"x", "' x='", "tab\there", "line\nbreak", "cr\rhere", "crlf\r\nhere", " lead trail ",
	"ü€😀", "\U0001F600\U00010000", "�", "￾", "￿", "a\x00b", "\x01\x1f", "\x7f\u0080\u0085", "\xff\xfe", "\xc3", "\xed\xa0\x80", "\xf4\x90\x80\x80", "  ", "&#0;", "&#xD800;", "<?xml version=\"1.0\"?>", "%41+%zz", "x=1&y=2", "one,two;three|four", "a+b c", "k=v&SigAlg=x&Signature=AAAA"}

// ---------- reflection: fill every string field, collect them back ----------

func fill(v reflect.Value, depth int, gen func() string) {
	switch v.Kind() {
	case reflect.Ptr:
		if depth <= 0 {
			return
		}
		if v.Type().Elem().Kind() == reflect.Struct || v.Type().Elem().Kind() == reflect.String {
			v.Set(reflect.New(v.Type().Elem()))
			fill(v.Elem(), depth, gen)
		}
	case reflect.Struct:
		if v.Type() == reflect.TypeOf(xml.Name{}) {
			return
		}
		for i := 0; i < v.NumField(); i++ {
			f := v.Type().Field(i)
			tag := f.Tag.Get("xml")
			if tag == "-" || strings.Contains(tag, ",innerxml") || strings.Contains(tag, ",any") || !f.IsExported() {
				continue
			}
			fill(v.Field(i), depth-1, gen)
		}
	case reflect.Slice:
		if depth <= 0 || v.Type().Elem().Kind() == reflect.Uint8 || v.Type().Elem().Kind() == reflect.Interface {
			return
		}
		s := reflect.MakeSlice(v.Type(), 2, 2)
		fill(s.Index(0), depth, gen)
		fill(s.Index(1), depth, gen)
		v.Set(s)
	case reflect.String:
		v.SetString(gen())
	}
}

func coqStr(s string) string { return `"` + strings.ReplaceAll(s, `"`, `""`) + `"%string` }

// ---------- the run ----------

type docCheck struct {
	flow   string
	values map[string]string // description -> expected value that must come back from the generic parse and the library decoder
}

func Run(dir, tier string, seed int64) error {
	run := coqgen.NewRun(dir, "C18", tier, seed)
	run.Imports = "From Saml Require Import Base.Bytes Xml.Tree Xml.SchemaTypes Xml.Schema Idp.BuilderTypes Idp.Builder Xml.Unmarshal Corr.C18Corr."
	run.CaseType = "c18case"
	run.BadFn = "c18_bad"
	run.PerShard = 40
	r := rand.New(rand.NewSource(seed))
	id := 0
	fail := func(class, what string, in interface{}) {
		run.Fail(coqgen.Failure{ID: id, Class: class, What: what, Input: in})
	}
	shapes := map[string]string{} // flow -> shape with benign data

	// checkDoc: Coq case + generic-parser oracles for one produced document
	checkDoc := func(flow string, doc []byte, want []string, desc map[string]interface{}, wantSub ...string) (*idp.Node, bool) {
		run.Res.Evaluations++
		run.Count("flow=" + flow)
		desc["flow"] = flow
		desc["document"] = string(doc)
		root, header, err := rawTree(doc)
		if err != nil {
			fail("document-not-in-printer-language", fmt.Sprintf("%s: %v", flow, err), desc)
			id++
			return nil, false
		}
		run.AddCase(id, fmt.Sprintf("KDoc %s %s %s %s", coqgen.Z(int64(id)), coqgen.Bool(header), root.coq(), coqgen.Bytes(string(doc))), desc)
		gen, err := idp.ParseXML(doc)
		if err != nil {
			fail("document-not-well-formed", fmt.Sprintf("%s: a generic strict parser rejects the document: %v", flow, err), desc)
			id++
			return nil, false
		}
		var sb strings.Builder
		root.shape(&sb)
		if base, ok := shapes[flow]; !ok {
			shapes[flow] = sb.String()
		} else if base != sb.String() {
			fail("structure-altered-by-data", fmt.Sprintf("%s: element/attribute structure differs from the same message with benign data", flow), desc)
		}
		var got []string
		root.values(&got)
		have := map[string]int{}
		for _, g := range got {
			have[g]++
		}
		for _, w := range want {
			if w == "" {
				continue
			}
			if have[sanitize(w)] == 0 {
				fail("value-not-returned", fmt.Sprintf("%s: the value %q (sanitised %q) is not among the attribute values and texts a generic parser returns", flow, w, sanitize(w)), desc)
				break
			}
		}
		for _, w := range wantSub {
			found := false
			for _, g := range got {
				if strings.Contains(g, sanitize(w)) {
					found = true
				}
			}
			if !found {
				fail("value-not-returned", fmt.Sprintf("%s: the text %q (sanitised %q) does not occur in any attribute value or text a generic parser returns", flow, w, sanitize(w)), desc)
				break
			}
		}
		run.Distinct(fmt.Sprintf("%s/%d", flow, len(doc)%31))
		id++
		return gen, true
	}

	// built: the document against the builder functions of the current source (Gen/Builders.v) and the schema of the struct
	// tags; message and assertion identifiers and the two instants are read off the document (oracles of the model)
	built := func(flow, fn, recv string, args []string, root string, doc []byte, desc map[string]interface{}) {
		t, _, err := rawTree(doc)
		if err != nil {
			return
		}
		run.Res.Evaluations++
		run.Count("built=" + flow)
		run.AddCase(id, builtCase(id, fn, recv, args, root, t), map[string]interface{}{"flow": flow, "builder": fn, "input": desc, "document": string(doc)})
		id++
	}
	idpEntity := sso.IssuerURL + "/metadata"
	// unm: what a library decoder makes of a document against the model of Unmarshal
	unm := func(flow string, doc []byte, decoded interface{}, derr error, desc map[string]interface{}) {
		if c, ok := unmCase(id, doc, decoded, derr); ok {
			run.Res.Evaluations++
			run.Count("unmarshal=" + flow)
			run.AddCase(id, c, map[string]interface{}{"flow": flow, "input": desc, "document": string(doc), "decode_error": fmt.Sprint(derr)})
			id++
		}
	}
	// ===== (1) the IdP's own messages through the endpoints, every hostile string in every data position
	mkEnv := func(org string) *idp.Env {
		conf := idp.DefaultConf()
		conf.Organisation = &provider.Organisation{Name: org + "#on", DisplayName: org + "#od", URL: org + "#ou"}
		conf.ContactPerson = &provider.ContactPerson{ContactType: "technical", Company: org + "#cc", GivenName: org + "#cg", SurName: org + "#cs", EmailAddress: org + "#ce", TelephoneNumber: org + "#ct"}
		env, err := idp.NewEnv(idp.EnvConfig{Issuer: sso.IssuerURL, Conf: conf})
		if err != nil {
			panic(err)
		}
		return env
	}
	big := strings.Repeat("<&\"x]]>", 250) // 2 kB; 20 kB in the thorough tier
	if tier == "thorough" {
		big = strings.Repeat("<&\"x]]>", 2500)
	}
	strs := append(append([]string{"benign"}, hostile...), big)
	for _, h := range strs {
		env := mkEnv(h)
		st := env.Storage
		st.ErrEcho = true
		sp := sso.BaseSP(nil, true)
		if _, err := st.Register("app-1", sp); err != nil {
			return err
		}
		st.Apps["app-1"] = sso.SPEntity
		u := &idp.User{Email: h + "#mail", FullName: h + "#full", GivenName: h + "#given", Surname: h + "#sur", Username: h + "#user", UserID: h + "#uid",
			Custom: []idp.CustomAttr{{Name: h + "#cname", Friendly: h + "#cfriendly", Format: h + "#cformat", Values: []string{h + "#v1", h + "#v2", ""}}}}
		st.Users["u1"] = u
		st.Logins["alice"] = u
		userVals := []string{h + "#mail", h + "#full", h + "#given", h + "#sur", h + "#user", h + "#uid", h + "#cname", h + "#cfriendly", h + "#cformat", h + "#v1", h + "#v2"}
		desc := func() map[string]interface{} { return map[string]interface{}{"hostile": h} }

		// -- login callback, success, POST and Redirect binding: request ID, ACS URL from the stored request
		for _, binding := range []string{idp.PostBinding, idp.RedirBinding} {
			st.Requests["r1"] = &idp.AuthReq{ID: "r1", AppID: "app-1", RelayState: h, ACS: "https://sp.example/acs?" + h, Binding: binding, AuthReqID: h + "#reqid", UserID: "u1", IsDone: true}
			rep := env.Do(idp.ReqSpec{Method: http.MethodGet, Path: "/login", Query: []idp.Param{idp.Q("id", "r1")}}.HTTP())
			if rep.Msg == nil {
				run.Count("no-message:callback-success")
				continue
			}
			flow := "response-success-" + binding[strings.LastIndex(binding, ":")+1:]
			want := append([]string{h + "#reqid", "https://sp.example/acs?" + h, sso.SPEntity}, userVals...)
			if t, _, err := rawTree(rep.Msg); err == nil {
				recv := dObj("provider.Response", "RequestID", dStr(h+"#reqid"), "AcsUrl", dStr("https://sp.example/acs?"+h), "Issuer", dStr(idpEntity), "Audience", dStr(sso.SPEntity), "SendIP", dStr(""))
				built(flow, "makeSuccessfulResponse", "(Some "+recv+")", []string{dAttributes(u, customOrderIn(t)), dStr("format"), "DNil"}, "samlp.ResponseType", rep.Msg, desc())
			}
			if _, ok := checkDoc(flow, rep.Msg, want, desc()); ok {
				// the library's own decoder
				dec, err := samlxml.DecodeResponse("", false, string(rep.Msg))
				if dec == nil {
					unm(flow, rep.Msg, &samlp.ResponseType{}, err, desc())
				} else {
					unm(flow, rep.Msg, dec, err, desc())
				}
				if err != nil {
					id--
					fail("library-decoder-rejects-own-message", fmt.Sprintf("%s: DecodeResponse: %v", flow, err), desc())
					id++
				} else {
					libResponse(run, id-1, flow, dec, h, u, desc())
				}
			}
		}
		// -- the RelayState is user data as well: over the Redirect binding the query must consist of exactly the binding's
		// parameters, once each, and RelayState must come back byte for byte; over POST the hidden field carries it
		for _, binding := range []string{idp.PostBinding, idp.RedirBinding} {
			st.Requests["r3"] = &idp.AuthReq{ID: "r3", AppID: "app-1", RelayState: h, ACS: "https://sp.example/acs", Binding: binding, AuthReqID: "_r3", UserID: "u1", IsDone: true}
			rep := env.Do(idp.ReqSpec{Method: http.MethodGet, Path: "/login", Query: []idp.Param{idp.Q("id", "r3")}}.HTTP())
			run.Res.Evaluations++
			switch rep.Kind {
			case "saml-redirect":
				run.Count("relaystate:redirect")
				seen := map[string]int{}
				for _, kv := range rep.QueryKV {
					seen[kv[0]]++
				}
				okShape := len(rep.QueryKV) == len(seen)
				for k := range seen {
					if k != "SAMLResponse" && k != "RelayState" && k != "SigAlg" && k != "Signature" {
						okShape = false
					}
				}
				if !okShape {
					fail("redirect-query-restructured", fmt.Sprintf("the redirect query has parameters %v: data added or repeated a parameter", seen), desc())
					id++
				} else if rep.Q["RelayState"] != h {
					fail("relaystate-not-returned", fmt.Sprintf("redirect binding: RelayState comes back as %q", rep.Q["RelayState"]), desc())
					id++
				}
			case "saml-post":
				run.Count("relaystate:post")
				want := strings.ReplaceAll(h, "\x00", "\uFFFD")
				if rep.FormRelay != want && rep.FormRelay != strings.ReplaceAll(strings.ReplaceAll(want, "\r\n", "\n"), "\r", "\n") {
					fail("relaystate-not-returned", fmt.Sprintf("POST binding: RelayState comes back as %q", rep.FormRelay), desc())
					id++
				}
			default:
				run.Count("relaystate:no-reply")
			}
			delete(st.Requests, "r3")
		}
		// -- login callback, failure (unknown user): status message
		st.Requests["r2"] = &idp.AuthReq{ID: "r2", AppID: "app-1", RelayState: h, ACS: "https://sp.example/acs?" + h, Binding: idp.PostBinding, AuthReqID: h + "#reqid", UserID: "nobody", IsDone: true}
		if rep := env.Do(idp.ReqSpec{Method: http.MethodGet, Path: "/login", Query: []idp.Param{idp.Q("id", "r2")}}.HTTP()); rep.Msg != nil {
			if t, _, err := rawTree(rep.Msg); err == nil {
				code, msg := "", ""
				if sc := t.find("StatusCode"); sc != nil {
					code = sc.attr("Value")
				}
				if sm := t.find("StatusMessage"); sm != nil {
					msg = sm.text
				}
				recv := dObj("provider.Response", "RequestID", dStr(h+"#reqid"), "AcsUrl", dStr("https://sp.example/acs?"+h), "Issuer", dStr(idpEntity), "Audience", dStr(sso.SPEntity), "SendIP", dStr(""))
				built("response-failed-callback", "makeFailedResponse", "(Some "+recv+")", []string{dStr(code), dStr(msg), dStr("format")}, "samlp.ResponseType", rep.Msg, desc())
			}
			checkDoc("response-failed-callback", rep.Msg, []string{h + "#reqid", "https://sp.example/acs?" + h}, desc())
		}
		// -- values that arrive inside request XML must be XML-legal to be sent at all
		if legal(h) {
			esc := idp.EscAttr
			// SSO failure: the request ID is echoed as InResponseTo (expired request)
			areq := `<samlp:AuthnRequest xmlns:samlp="urn:oasis:names:tc:SAML:2.0:protocol" xmlns:saml="urn:oasis:names:tc:SAML:2.0:assertion" ID="` + esc(h+"#id") + `" Version="2.0" IssueInstant="2001-01-01T00:00:00Z" Destination="https://elsewhere.example/SSO" ProtocolBinding="` + idp.PostBinding + `"><saml:Issuer>` + sso.SPEntity + `</saml:Issuer></samlp:AuthnRequest>`
			if rep := env.Do(idp.ReqSpec{Method: http.MethodPost, Path: "/SSO", Body: []idp.Param{idp.Q("SAMLRequest", idp.B64([]byte(areq))), idp.Q("RelayState", h)}}.HTTP()); rep.Msg != nil {
				if t, _, err := rawTree(rep.Msg); err == nil && rep.Kind == "saml-post" {
					code, msg := "", ""
					if sc := t.find("StatusCode"); sc != nil {
						code = sc.attr("Value")
					}
					if sm := t.find("StatusMessage"); sm != nil {
						msg = sm.text
					}
					recv := dObj("provider.Response", "RequestID", dStr(h+"#id"), "AcsUrl", dStr(rep.FormAction), "Issuer", dStr(idpEntity), "Audience", dStr(sso.SPEntity), "SendIP", dStr(""))
					built("response-failed-sso", "makeFailedResponse", "(Some "+recv+")", []string{dStr(code), dStr(msg), dStr("format")}, "samlp.ResponseType", rep.Msg, desc())
				}
				checkDoc("response-failed-sso", rep.Msg, []string{h + "#id"}, desc())
			}
			// the request documents themselves through the library's decoders (prefixes, hostile values, unknown and repeated
			// elements, a wrong root, trailing content)
			for vi, variant := range []string{areq,
				strings.Replace(areq, `<saml:Issuer>`, `<saml:Issuer Format="`+esc(h)+`">`, 1),
				strings.Replace(areq, `</samlp:AuthnRequest>`, `<unknown x="1">`+esc(h)+`<deep/></unknown><saml:Issuer>second</saml:Issuer><samlp:NameIDPolicy AllowCreate="true" Format="f"/><saml:Conditions NotBefore="`+esc(h)+`"><saml:AudienceRestriction><saml:Audience>a1</saml:Audience><saml:Audience>`+esc(h)+`</saml:Audience></saml:AudienceRestriction></saml:Conditions></samlp:AuthnRequest>`, 1),
				strings.Replace(areq, `samlp:AuthnRequest`, `samlp:LogoutRequest`, 2),
				areq + "<!-- c --> \n",
				areq + "<trailing/>",
				strings.Replace(areq, ` Version="2.0"`, ` Version="2.0" Version2="x" xmlns:ds="http://www.w3.org/2000/09/xmldsig#"`, 1)} {
				dec, derr := samlxml.DecodeAuthNRequest("", idp.B64([]byte(variant)))
				d := desc()
				d["variant"] = vi
				if dec == nil {
					unm("request-authn", []byte(variant), &samlp.AuthnRequestType{}, derr, d)
				} else {
					unm("request-authn", []byte(variant), dec, derr, d)
				}
			}
			// logout: request ID echoed
			lreq := `<samlp:LogoutRequest xmlns:samlp="urn:oasis:names:tc:SAML:2.0:protocol" xmlns:saml="urn:oasis:names:tc:SAML:2.0:assertion" ID="` + esc(h+"#id") + `" Version="2.0"><saml:Issuer>` + sso.SPEntity + `</saml:Issuer><saml:NameID>` + esc(h) + `</saml:NameID></samlp:LogoutRequest>`
			if rep := env.Do(idp.ReqSpec{Method: http.MethodPost, Path: "/SLO", Body: []idp.Param{idp.Q("SAMLRequest", idp.B64([]byte(lreq))), idp.Q("RelayState", h)}}.HTTP()); rep.Msg != nil {
				if t, _, err := rawTree(rep.Msg); err == nil {
					recv := dObj("provider.LogoutResponse", "RequestID", dStr(h+"#id"), "LogoutURL", dStr(rep.FormAction), "Issuer", dStr(idpEntity))
					fn, args := "makeSuccessfulLogoutResponse", []string{dStr("format")}
					if sc := t.find("StatusCode"); sc != nil && sc.attr("Value") != "urn:oasis:names:tc:SAML:2.0:status:Success" {
						msg := ""
						if sm := t.find("StatusMessage"); sm != nil {
							msg = sm.text
						}
						fn, args = "makeFailedLogoutResponse", []string{dStr(sc.attr("Value")), dStr(msg), dStr("format")}
					}
					built("logout-response", fn, "(Some "+recv+")", args, "samlp.LogoutResponseType", rep.Msg, desc())
				}
				if _, ok := checkDoc("logout-response", rep.Msg, []string{h + "#id"}, desc()); ok {
					var lr samlp.LogoutResponseType
					if err := xml.Unmarshal(rep.Msg, &lr); err != nil || lr.InResponseTo != h+"#id" {
						id--
						fail("library-decoder-value-differs", fmt.Sprintf("logout-response: InResponseTo %q, want %q (err %v)", lr.InResponseTo, h+"#id", err), desc())
						id++
					}
				}
			}
			// failed answers whose status message repeats error text: the decoder's complaint about an element name, and the
			// storage's complaint about an unknown issuer
			bad := `<` + "x" + `>` + esc(h) + `</x>`
			if _, derr := samlxml.DecodeLogoutRequest("", idp.B64([]byte(bad))); derr != nil {
				if rep := env.Do(idp.ReqSpec{Method: http.MethodPost, Path: "/SLO", Body: []idp.Param{idp.Q("SAMLRequest", idp.B64([]byte(bad)))}}.HTTP()); rep.Msg != nil {
					checkDoc("logout-response-failed-decode", rep.Msg, nil, desc(), derr.Error())
				}
			}
			lunk := `<samlp:LogoutRequest xmlns:samlp="urn:oasis:names:tc:SAML:2.0:protocol" xmlns:saml="urn:oasis:names:tc:SAML:2.0:assertion" ID="` + esc(h+"#id") + `" Version="2.0"><saml:Issuer>` + esc("https://unknown.example/"+h) + `</saml:Issuer><saml:NameID>u</saml:NameID></samlp:LogoutRequest>`
			if rep := env.Do(idp.ReqSpec{Method: http.MethodPost, Path: "/SLO", Body: []idp.Param{idp.Q("SAMLRequest", idp.B64([]byte(lunk)))}}.HTTP()); rep.Msg != nil {
				checkDoc("logout-response-failed-unknown-sp", rep.Msg, []string{h + "#id"}, desc(), "https://unknown.example/"+h)
			}
			aunk := strings.Replace(areq, `<saml:Issuer>`+sso.SPEntity, `<saml:Issuer>`+esc("https://unknown.example/"+h), 1)
			if rep := env.Do(idp.ReqSpec{Method: http.MethodPost, Path: "/SSO", Body: []idp.Param{idp.Q("SAMLRequest", idp.B64([]byte(aunk)))}}.HTTP()); rep.Msg != nil {
				checkDoc("response-failed-unknown-sp", rep.Msg, []string{h + "#id"}, desc(), "https://unknown.example/"+h)
			}
			// attribute query: request ID, subject, user attributes
			aq := `<soap:Envelope xmlns:soap="http://schemas.xmlsoap.org/soap/envelope/"><soap:Body><samlp:AttributeQuery xmlns:samlp="urn:oasis:names:tc:SAML:2.0:protocol" xmlns:saml="urn:oasis:names:tc:SAML:2.0:assertion" ID="` + esc(h+"#id") + `" Version="2.0" IssueInstant="2024-01-01T00:00:00Z"><saml:Issuer>` + sso.SPEntity + `</saml:Issuer><saml:Subject><saml:NameID>alice</saml:NameID></saml:Subject></samlp:AttributeQuery></soap:Body></soap:Envelope>`
			if rep := env.Do(idp.ReqSpec{Method: http.MethodPost, Path: "/attribute", RawBody: &aq}.HTTP()); rep.Msg != nil && rep.Code == 200 {
				if t, _, err := rawTree(rep.Msg); err == nil {
					if resp := t.find("Response"); resp != nil {
						run.Res.Evaluations++
						run.Count("built=attribute-response")
						args := []string{dStr(h + "#id"), dStr(idpEntity), dStr(sso.SPEntity), dAttributes(u, customOrderIn(resp)), "DNil", dStr("format"), "DNil"}
						run.AddCase(id, builtCase(id, "makeAttributeQueryResponse", "None", args, "samlp.ResponseType", resp), map[string]interface{}{"flow": "attribute-response", "builder": "makeAttributeQueryResponse", "input": desc(), "document": string(rep.Msg)})
						id++
					}
				}
				if _, ok := checkDoc("attribute-response", rep.Msg, append([]string{h + "#id", sso.SPEntity}, userVals...), desc()); ok {
					var envl soap.ResponseEnvelope
					if err := xml.Unmarshal(rep.Msg, &envl); err != nil || envl.Body.Response == nil || envl.Body.Response.InResponseTo != h+"#id" {
						id--
						fail("library-decoder-value-differs", fmt.Sprintf("attribute-response: decode error %v or InResponseTo differs", err), desc())
						id++
					} else {
						libAttrs(run, id-1, "attribute-response", &envl.Body.Response.Assertion, u, desc())
					}
				}
			}
		}
		// -- attribute query that names attributes: the filter loop of makeAttributeQueryResponse (translated by go2v) against the
		// real answer: one standard attribute, the custom one, one the user does not have, one with another NameFormat
		if legal(h) {
			esc := idp.EscAttr
			basic := "urn:oasis:names:tc:SAML:2.0:attrname-format:basic"
			type qa struct{ name, format string }
			queried := []qa{{"Email", basic}, {h + "#cname", h + "#cformat"}, {"NoSuchAttribute", basic}, {"UserName", "urn:other:format"}}
			var qx strings.Builder
			var qd []string
			for _, q := range queried {
				qx.WriteString(`<saml:Attribute Name="` + esc(q.name) + `" NameFormat="` + esc(q.format) + `"/>`)
				qd = append(qd, dObj("saml.AttributeType", "Name", dStr(q.name), "NameFormat", dStr(q.format)))
			}
			aq2 := `<soap:Envelope xmlns:soap="http://schemas.xmlsoap.org/soap/envelope/"><soap:Body><samlp:AttributeQuery xmlns:samlp="urn:oasis:names:tc:SAML:2.0:protocol" xmlns:saml="urn:oasis:names:tc:SAML:2.0:assertion" ID="` + esc(h+"#id2") + `" Version="2.0" IssueInstant="2024-01-01T00:00:00Z"><saml:Issuer>` + sso.SPEntity + `</saml:Issuer><saml:Subject><saml:NameID>alice</saml:NameID></saml:Subject>` + qx.String() + `</samlp:AttributeQuery></soap:Body></soap:Envelope>`
			if rep := env.Do(idp.ReqSpec{Method: http.MethodPost, Path: "/attribute", RawBody: &aq2}.HTTP()); rep.Msg != nil && rep.Code == 200 {
				if t, _, err := rawTree(rep.Msg); err == nil {
					if resp := t.find("Response"); resp != nil {
						run.Res.Evaluations++
						run.Count("built=attribute-response-filtered")
						args := []string{dStr(h + "#id2"), dStr(idpEntity), dStr(sso.SPEntity), dAttributes(u, []string{sanitize(h + "#cname")}), dList(qd), dStr("format"), "DNil"}
						run.AddCase(id, builtCase(id, "makeAttributeQueryResponse", "None", args, "samlp.ResponseType", resp), map[string]interface{}{"flow": "attribute-response-filtered", "builder": "makeAttributeQueryResponse", "input": desc(), "document": string(rep.Msg)})
						id++
					}
				}
			} else {
				run.Count("no-message:attribute-response-filtered")
			}
		}
		// -- metadata: organisation and contact person from the configuration
		if rep := env.Do(idp.ReqSpec{Method: http.MethodGet, Path: "/metadata"}.HTTP()); rep.Code == 200 {
			if c, ok := MetadataCase(id, rep.Body, sso.IssuerURL, MetaParams{Org: &[3]string{h + "#on", h + "#od", h + "#ou"},
				Contact: &[6]string{"technical", h + "#cc", h + "#cg", h + "#cs", h + "#ce", h + "#ct"}}); ok {
				run.Res.Evaluations++
				run.Count("built=metadata")
				run.AddCase(id, "KBuiltX "+c, map[string]interface{}{"flow": "metadata", "builder": "Config.getMetadata", "input": desc(), "document": string(rep.Body)})
				id++
			}
			mvals := []string{h + "#on", h + "#od", h + "#ou", h + "#cc", h + "#cg", h + "#cs", h + "#ce", h + "#ct"}
			if _, ok := checkDoc("metadata", rep.Body, mvals, desc()); ok {
				var ed md.EntityDescriptorType
				if err := xml.Unmarshal(rep.Body, &ed); err != nil {
					id--
					fail("library-decoder-rejects-own-message", fmt.Sprintf("metadata: %v", err), desc())
					id++
				} else if d := ed.IDPSSODescriptor; d == nil || d.Organization == nil || len(d.Organization.OrganizationName) == 0 || d.Organization.OrganizationName[0].Text != sanitize(h+"#on") ||
					len(d.ContactPerson) == 0 || d.ContactPerson[0].Company != sanitize(h+"#cc") || len(d.ContactPerson[0].EmailAddress) != 1 || d.ContactPerson[0].EmailAddress[0] != sanitize(h+"#ce") ||
					len(d.ContactPerson[0].TelephoneNumber) != 1 || d.ContactPerson[0].TelephoneNumber[0] != sanitize(h+"#ct") || d.ContactPerson[0].GivenName != sanitize(h+"#cg") || d.ContactPerson[0].SurName != sanitize(h+"#cs") ||
					len(d.Organization.OrganizationDisplayName) != 1 || d.Organization.OrganizationDisplayName[0].Text != sanitize(h+"#od") || len(d.Organization.OrganizationURL) != 1 || d.Organization.OrganizationURL[0].Text != sanitize(h+"#ou") || len(d.Organization.OrganizationName) != 1 {
					id--
					fail("library-decoder-value-differs", "metadata: organisation / contact person decoded by the library differ from the configuration", desc())
					id++
				}
			}
		}
	}

	// ===== (2) the printer on the library's message types with every string field hostile (depth-limited)
	type mk struct {
		name string
		new  func() interface{}
	}
	types := []mk{{"samlp.Response", func() interface{} { return &samlp.ResponseType{} }}, {"samlp.LogoutResponse", func() interface{} { return &samlp.LogoutResponseType{} }},
		{"soap.ResponseEnvelope", func() interface{} { return &soap.ResponseEnvelope{} }}, {"md.EntityDescriptor", func() interface{} { return &md.EntityDescriptorType{} }},
		{"saml.Assertion", func() interface{} { return &saml.AssertionType{} }}, {"samlp.AuthnRequest", func() interface{} { return &samlp.AuthnRequestType{} }},
		{"samlp.LogoutRequest", func() interface{} { return &samlp.LogoutRequestType{} }}}
	rounds := 3
	if tier == "thorough" {
		rounds = 25
	}
	for _, t := range types {
		for round := 0; round < rounds+1; round++ {
			v := t.new()
			var put []string
			n := 0
			fill(reflect.ValueOf(v).Elem(), 4, func() string {
				n++
				s := "benign"
				if round > 0 {
					s = hostile[r.Intn(len(hostile))]
				}
				s = fmt.Sprintf("%s#%d", s, n)
				put = append(put, s)
				return s
			})
			doc, err := samlxml.Marshal(v)
			if err != nil {
				run.Note("Marshal(%s): %v", t.name, err)
				continue
			}
			checkDoc("marshal:"+t.name, doc, put, map[string]interface{}{"type": t.name, "round": round})
		}
	}

	// ===== (2b) the struct-to-document mapping: values of the library's model types with random shape (nil pointers, empty
	// slices and strings, zero numbers, runtime element names) and hostile data; the Coq side marshals the same value
	// with the schema go2v generates from the struct tags and must produce the same bytes
	sround := 12
	if tier == "thorough" {
		sround = 150
	}
	stypes := append([]mk{}, types...)
	stypes = append(stypes, mk{"samlp.AttributeQuery", func() interface{} { return &samlp.AttributeQueryType{} }}, mk{"saml.NameID", func() interface{} { return &saml.NameIDType{} }},
		mk{"md.IDPSSODescriptor", func() interface{} { return &md.IDPSSODescriptorType{} }}, mk{"xml_dsig.Signature", func() interface{} { return &xml_dsig.SignatureType{} }})
	for _, t := range stypes {
		for round := 0; round < sround; round++ {
			v := t.new()
			n := 0
			fillShape(reflect.ValueOf(v).Elem(), 3+round%3, r, func() string {
				n++
				if round%2 == 0 {
					return fmt.Sprintf("v%d", n)
				}
				return hostile[r.Intn(len(hostile))]
			})
			doc, err := samlxml.Marshal(v)
			run.Res.Evaluations++
			if err != nil {
				run.Note("Marshal(%s): %v", t.name, err)
				run.Count("struct-marshal-error")
				continue
			}
			if len(doc) > 60000 {
				run.Count("struct-too-large")
				continue
			}
			g, gerr := gvalOf(reflect.ValueOf(v))
			if gerr != nil {
				run.Note("gvalOf(%s): %v", t.name, gerr)
				continue
			}
			run.Count("struct=" + t.name)
			run.Distinct(fmt.Sprintf("struct/%s/%d", t.name, len(doc)%17))
			run.AddCase(id, fmt.Sprintf("KStruct %s %s %s %s", coqgen.Z(int64(id)), coqStr(typeKey(reflect.TypeOf(v))), g, coqgen.Bytes(string(doc))), map[string]interface{}{"type": t.name, "round": round, "document": string(doc)})
			id++
			// ... and back: Unmarshal of that document into a fresh value against the model of Unmarshal
			v2 := t.new()
			uerr := xml.Unmarshal(doc, v2)
			if c, ok := unmCase(id, doc, v2, uerr); ok {
				run.Res.Evaluations++
				run.Count("unmarshal=" + t.name)
				run.AddCase(id, c, map[string]interface{}{"type": t.name, "round": round, "document": string(doc), "unmarshal_error": fmt.Sprint(uerr)})
				id++
			}
		}
	}

	// ===== (3) EscapeText on every hostile string and on random byte strings
	esc := func(s string) {
		var b bytes.Buffer
		xml.EscapeText(&b, []byte(s))
		run.Res.Evaluations++
		run.Count("escape")
		run.AddCase(id, fmt.Sprintf("KEsc %s %s %s", coqgen.Z(int64(id)), coqgen.Bytes(s), coqgen.Bytes(b.String())), map[string]interface{}{"escape": s})
		id++
	}
	for _, h := range hostile {
		esc(h)
	}
	nr := 150
	if tier == "thorough" {
		nr = 3000
	}
	for i := 0; i < nr; i++ {
		b := make([]byte, r.Intn(24))
		for j := range b {
			const alpha = "<>&\"'\t\n\r \x00\x1f\x7f\xc3\xa9\xe2\x82\xac\xf0\x9f\x98\x80\xed\xa0\x80\xef\xbf\xbd\xef\xbf\xbe\xff\xf4\x90ab;#x"
			b[j] = alpha[r.Intn(len(alpha))]
		}
		esc(string(b))
	}

	// ===== (4) the codec
	codec := func(encoding string, b64 bool, msg string, why string) {
		got, err := samlxml.InflateAndDecode(encoding, b64, msg)
		run.Res.Evaluations++
		run.Count("codec=" + why)
		data := []byte(msg)
		okB64 := true
		if b64 {
			var e error
			data, e = base64.StdEncoding.DecodeString(msg)
			okB64 = e == nil
		}
		inflated := "None"
		if okB64 {
			if out, e := io.ReadAll(flate.NewReader(bytes.NewReader(data))); e == nil {
				inflated = "(Some " + coqgen.Bytes(string(out)) + ")"
			}
		}
		obs := "None"
		if err == nil {
			obs = "(Some " + coqgen.Bytes(string(got)) + ")"
		}
		desc := map[string]interface{}{"encoding": encoding, "b64": b64, "message": msg, "why": why, "error": fmt.Sprint(err)}
		run.AddCase(id, fmt.Sprintf("KCodec %s %s %s %s %s %s", coqgen.Z(int64(id)), coqgen.Bytes(encoding), coqgen.Bool(b64), coqgen.Bytes(msg), inflated, obs), desc)
		run.Distinct(fmt.Sprintf("codec/%s/%v/%v", why, b64, err == nil))
		if encoding != "" && encoding != samlxml.EncodingDeflate && err == nil {
			fail("unknown-encoding-passed-through", fmt.Sprintf("InflateAndDecode(%q) returned %d bytes without error", encoding, len(got)), desc)
		}
		id++
	}
	nc := 120
	if tier == "thorough" {
		nc = 2000
	}
	for i := 0; i < nc; i++ {
		var b []byte
		switch i % 4 {
		case 0:
			b = make([]byte, r.Intn(300))
			r.Read(b)
		case 1:
			b = []byte(strings.Repeat(hostile[r.Intn(len(hostile))], r.Intn(40)))
		case 2:
			b = []byte(fullDoc(r))
		case 3:
			b = make([]byte, []int{0, 1, 2, 3, 4, 5, 255, 256, 257, 1000}[r.Intn(10)])
			r.Read(b)
		}
		enc, err := samlxml.DeflateAndBase64(b)
		run.Res.Evaluations++
		run.Count("codec=roundtrip")
		if err != nil {
			fail("deflate-and-base64-error", err.Error(), map[string]interface{}{"input": string(b)})
			id++
			continue
		}
		back, derr := samlxml.InflateAndDecode(samlxml.EncodingDeflate, true, string(enc))
		desc := map[string]interface{}{"input_b64": base64.StdEncoding.EncodeToString(b), "encoded": string(enc)}
		if derr != nil || !bytes.Equal(back, b) {
			fail("codec-roundtrip-differs", fmt.Sprintf("InflateAndDecode(DeflateAndBase64(x)) != x (error %v, %d bytes in, %d bytes back)", derr, len(b), len(back)), desc)
		}
		deflated, _ := base64.StdEncoding.DecodeString(string(enc))
		run.AddCase(id, fmt.Sprintf("KEnc %s %s %s (Some %s)", coqgen.Z(int64(id)), coqgen.Bytes(string(deflated)), coqgen.Bytes(string(enc)), coqgen.Bytes(string(deflated))), desc)
		id++
		codec(samlxml.EncodingDeflate, true, string(enc), "deflate-valid")
		if i%3 == 0 {
			codec("", true, string(enc), "empty-encoding")
			codec(samlxml.EncodingDeflate, false, string(deflated), "deflate-raw")
		}
	}
	payload, _ := samlxml.DeflateAndBase64([]byte("<a/>"))
	for _, e := range []string{" ", "\t", "\r\n", "\u00a0", "  ", "x", "deflate", "DEFLATE", samlxml.EncodingDeflate + " ", " " + samlxml.EncodingDeflate, strings.ToLower(samlxml.EncodingDeflate), strings.ToUpper(samlxml.EncodingDeflate),
		samlxml.EncodingDeflate[:len(samlxml.EncodingDeflate)-1], samlxml.EncodingDeflate + "\x00", "urn:oasis:names:tc:SAML:2.0:bindings:URL-Encoding:GZIP", "base64", "\x00", "identity", "urn:oasis:names:tc:SAML:2.0:bindings:HTTP-Redirect"} {
		for _, b64 := range []bool{true, false} {
			codec(e, b64, string(payload), "unknown-encoding")
			codec(e, b64, "PGEvPg==", "unknown-encoding")
		}
	}
	// the same at the endpoints: a request declaring an unrecognised SAMLEncoding is refused on every binding
	{
		env := mkEnv("benign")
		st := env.Storage
		st.Register("app-1", sso.BaseSP(nil, true))
		ar := `<samlp:AuthnRequest xmlns:samlp="urn:oasis:names:tc:SAML:2.0:protocol" xmlns:saml="urn:oasis:names:tc:SAML:2.0:assertion" ID="_enc" Version="2.0" IssueInstant="` + idp.NowInstant() + `"><saml:Issuer>` + sso.SPEntity + `</saml:Issuer></samlp:AuthnRequest>`
		lo := `<samlp:LogoutRequest xmlns:samlp="urn:oasis:names:tc:SAML:2.0:protocol" xmlns:saml="urn:oasis:names:tc:SAML:2.0:assertion" ID="_enc" Version="2.0"><saml:Issuer>` + sso.SPEntity + `</saml:Issuer><saml:NameID>u</saml:NameID></samlp:LogoutRequest>`
		for _, e := range []string{"x", "none", "urn:oasis:names:tc:SAML:2.0:bindings:URL-Encoding:GZIP", " ", samlxml.EncodingDeflate + " ", strings.ToLower(samlxml.EncodingDeflate)} {
			for _, method := range []string{http.MethodPost, http.MethodGet} {
				for _, ep := range []struct{ path, doc string }{{"/SSO", ar}, {"/SLO", lo}} {
					for _, msg := range []string{idp.B64([]byte(ep.doc)), idp.DeflateB64([]byte(ep.doc))} {
						params := []idp.Param{idp.Q("SAMLRequest", msg), idp.Q("SAMLEncoding", e)}
						spec := idp.ReqSpec{Method: method, Path: ep.path}
						if method == http.MethodPost {
							spec.Body = params
						} else {
							spec.Query = params
						}
						st.ResetLog()
						rep := env.Do(spec.HTTP())
						run.Res.Evaluations++
						run.Count("codec=endpoint-unknown-encoding")
						if st.CountOp("CreateAuthRequest") > 0 || strings.HasSuffix(rep.Status, ":Success") {
							fail("unknown-encoding-passed-through", fmt.Sprintf("%s %s with SAMLEncoding=%q was accepted (%s %d %s)", method, ep.path, e, rep.Kind, rep.Code, rep.Status), map[string]interface{}{"request": spec})
						}
						id++
					}
				}
			}
		}
	}
	for _, m := range []string{"", "=", "A", "AA", "AAA", "AAAA", "AA==", "AA=", "A===", "AAAA\n", "AA\r\nAA", "AAAA AAAA", "AAAA-_", "AAAA*", "////", "AAAAA", "AA==AA==", "\x00"} {
		codec(samlxml.EncodingDeflate, true, m, "malformed-base64-or-deflate")
		codec("", true, m, "malformed-base64")
	}
	run.Res.Rule = "documents: every message kind the IdP emits (success Response over POST and Redirect, failed Response from callback and from SSO incl. status messages that repeat decoder / storage error text, LogoutResponse success and failed, SOAP attribute response, metadata) produced by the real endpoints with each of 34 hostile strings (incl. one of 2 kB, 20 kB in the thorough tier) (XML metacharacters, CDATA and comment delimiters, closing tags, controls, NUL, CR/LF/TAB, U+FFFE/U+FFFF, surrogates and other invalid UTF-8, supplementary planes) in every data position that can carry it (user attributes and custom attribute names/formats/values, NameID, request ID, ACS URL, organisation and contact data; request IDs only for XML-legal strings), plus the library's Marshal on 7 message types with every string field hostile to depth 4; each document is compared byte for byte with the Coq print of its raw token tree (so the lexer theorems apply to the real bytes), parsed by a generic strict parser (single well-formed document, same element/attribute structure as with benign data, every value returned up to U+FFFD replacement) and by the library decoders (DecodeResponse / Unmarshal: fields equal). escape: xml.EscapeText vs the model on hostile and random byte strings. codec: DeflateAndBase64 then InflateAndDecode on random, repetitive and document inputs (0..1000 bytes; sizes around the cap are C14's), base64 layer vs model, 19 unrecognised encoding identifiers (near misses: whitespace-only, padded, case variants, prefixes) x b64 on/off, malformed base64/DEFLATE; at the endpoints: /SSO and /SLO, GET and POST, plain and deflated messages declaring 6 unrecognised SAMLEncoding values must be refused. distinct = (flow or codec class, size class)."
	return run.Finish()
}

func fullDoc(r *rand.Rand) string {
	return `<samlp:AuthnRequest xmlns:samlp="urn:oasis:names:tc:SAML:2.0:protocol" ID="` + fmt.Sprint(r.Int63()) + `" Version="2.0"><saml:Issuer xmlns:saml="urn:oasis:names:tc:SAML:2.0:assertion">` + hostile[r.Intn(5)] + `</saml:Issuer></samlp:AuthnRequest>`
}

// libResponse compares what DecodeResponse returns with what was stored
func libResponse(run *coqgen.Run, id int, flow string, dec *samlp.ResponseType, h string, u *idp.User, desc map[string]interface{}) {
	bad := func(what string) {
		run.Fail(coqgen.Failure{ID: id, Class: "library-decoder-value-differs", What: flow + ": " + what, Input: desc})
	}
	if dec.InResponseTo != sanitize(h+"#reqid") {
		bad(fmt.Sprintf("InResponseTo %q", dec.InResponseTo))
	}
	if dec.Destination != sanitize("https://sp.example/acs?"+h) {
		bad(fmt.Sprintf("Destination %q", dec.Destination))
	}
	if dec.Assertion.Subject == nil || dec.Assertion.Subject.NameID == nil || dec.Assertion.Subject.NameID.Text != sanitize(u.Username) {
		bad("NameID differs")
	}
	libAttrs(run, id, flow, &dec.Assertion, u, desc)
}

func libAttrs(run *coqgen.Run, id int, flow string, a *saml.AssertionType, u *idp.User, desc map[string]interface{}) {
	var got []string
	for _, st := range a.AttributeStatement {
		for _, at := range st.Attribute {
			var vs []string
			for _, v := range at.AttributeValue {
				vs = append(vs, v)
			}
			got = append(got, at.Name+"|"+at.FriendlyName+"|"+at.NameFormat+"|"+strings.Join(vs, "|"))
		}
	}
	sort.Strings(got)
	joined := strings.Join(got, "\n")
	for _, w := range []string{sanitize(u.Email), sanitize(u.FullName), sanitize(u.GivenName), sanitize(u.Surname), sanitize(u.UserID),
		sanitize(u.Custom[0].Name) + "|" + sanitize(u.Custom[0].Friendly) + "|" + sanitize(u.Custom[0].Format) + "|" + sanitize(u.Custom[0].Values[0]) + "|" + sanitize(u.Custom[0].Values[1])} {
		if !strings.Contains(joined, w) {
			run.Fail(coqgen.Failure{ID: id, Class: "library-decoder-value-differs", What: fmt.Sprintf("%s: attribute statement decoded by the library lacks %q", flow, w), Input: desc})
			return
		}
	}
}
