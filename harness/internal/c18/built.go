package c18

import (
	"fmt"
	"strings"

	"verif/harness/internal/coqgen"
	"verif/harness/internal/idp"
)

// ---- dynamic values of Idp/Builder.v ----

func dStr(s string) string { return "(DStr " + coqgen.Bytes(s) + ")" }
func dObj(ty string, kv ...string) string {
	var fs []string
	for i := 0; i+1 < len(kv); i += 2 {
		fs = append(fs, fmt.Sprintf("(%s, %s)", coqStr(kv[i]), kv[i+1]))
	}
	return fmt.Sprintf("(DObj %s %s)", coqStr(ty), coqgen.List(fs))
}
func dList(xs []string) string { return "(DList " + coqgen.List(xs) + ")" }

// the Attributes value the storage fills for a user (custom attributes in the given order: Go iterates the map in
// random order, the order is read off the document)
func dAttributes(u *idp.User, customOrder []string) string {
	byName := map[string]idp.CustomAttr{}
	for _, c := range u.Custom {
		byName[sanitize(c.Name)] = c // the document shows names with illegal characters replaced
	}
	var pairs []string
	for _, n := range customOrder {
		c, ok := byName[n]
		if !ok {
			continue
		}
		var vs []string
		for _, v := range c.Values {
			vs = append(vs, dStr(v))
		}
		pairs = append(pairs, dObj("pair", "k", dStr(c.Name), "v", dObj("provider.CustomAttribute", "FriendlyName", dStr(c.Friendly), "NameFormat", dStr(c.Format), "AttributeValue", dList(vs))))
	}
	return dObj("provider.Attributes", "email", dStr(u.Email), "fullName", dStr(u.FullName), "givenName", dStr(u.GivenName), "surname", dStr(u.Surname),
		"userID", dStr(u.UserID), "username", dStr(u.Username), "customAttributes", dList(pairs))
}

func (n *rnode) attr(k string) string {
	for _, a := range n.attrs {
		if a[0] == k {
			return a[1]
		}
	}
	return ""
}
func (n *rnode) find(name string) *rnode {
	if n.name == name || strings.HasSuffix(n.name, ":"+name) {
		return n
	}
	for _, k := range n.kids {
		if r := k.find(name); r != nil {
			return r
		}
	}
	return nil
}

// observedOracles reads from the document what the model takes as given: the identifiers NewID() produced, in call
// order (message, then assertion), and the two instants the clock produced
func observedOracles(root *rnode) (fresh []string, issue, until string) {
	fresh = append(fresh, root.attr("ID"))
	issue = root.attr("IssueInstant")
	if a := root.find("Assertion"); a != nil && a.attr("ID") != "" {
		fresh = append(fresh, a.attr("ID"))
		if c := a.find("Conditions"); c != nil {
			until = c.attr("NotOnOrAfter")
		}
	}
	return
}

// customOrderIn: names of the attributes in the document that are not the six standard ones, in document order
func customOrderIn(root *rnode) []string {
	std := map[string]bool{"Email": true, "SurName": true, "FirstName": true, "FullName": true, "UserName": true, "UserID": true}
	var out []string
	var walk func(n *rnode)
	walk = func(n *rnode) {
		if n.name == "Attribute" && !std[n.attr("Name")] {
			out = append(out, n.attr("Name"))
		}
		for _, k := range n.kids {
			walk(k)
		}
	}
	walk(root)
	return out
}

// builtCase: the Coq case comparing the document with what the builder functions of the current source produce
func builtCase(id int, fn string, recv string, args []string, root string, doc *rnode) string {
	fresh, issue, until := observedOracles(doc)
	return fmt.Sprintf("KBuilt %s %s %s %s %s %s %s %s %s", coqgen.Z(int64(id)), coqStr(fn), recv, coqgen.List(args), coqgen.BytesList(fresh), coqgen.Bytes(issue), coqgen.Bytes(until), coqStr(root), doc.coq())
}
