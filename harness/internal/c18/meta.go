package c18

import (
	"fmt"

	"verif/harness/internal/coqgen"
)

// MetaParams: the configuration values the metadata builders read
type MetaParams struct {
	Want, Enc, Cache, ErrURL string
	Org                      *[3]string // Name, DisplayName, URL
	Contact                  *[6]string // ContactType, Company, GivenName, SurName, EmailAddress, TelephoneNumber
}

// MetadataCase: the arguments of a KBuiltX / KMetaDoc case (everything after the constructor name): the metadata document
// the endpoint served against the translated builders of metadata.go / identityprovider.go.  Identifiers, the validity
// instant, the certificate text and the three endpoint URLs are read off the document (oracles of the model; the URLs
// are what C11's router model is about)
func MetadataCase(id int, doc []byte, issuer string, p MetaParams) (string, bool) {
	t, _, err := rawTree(doc)
	if err != nil {
		return "", false
	}
	idpD, aaD := t.find("IDPSSODescriptor"), t.find("AttributeAuthorityDescriptor")
	if idpD == nil || aaD == nil {
		return "", false
	}
	loc := func(n *rnode, name string) string {
		if e := n.find(name); e != nil {
			return e.attr("Location")
		}
		return ""
	}
	certText := ""
	if x := idpD.find("X509Certificate"); x != nil {
		certText = x.text
	}
	pair := func(k, v string) string { return fmt.Sprintf("(%s, %s)", coqStr(k), v) }
	extra := []string{
		pair("idp.GetEntityID(ctx)", dStr(t.attr("entityID"))), pair("p.GetEntityID(ctx)", dStr(t.attr("entityID"))),
		pair("IssuerFromContext(ctx)", dStr(issuer)), pair("getResponseCert(ctx, p.storage)", dList([]string{dStr(""), "DNil", "DNil"})),
		pair("base64.StdEncoding.EncodeToString(idpCertData)", dStr(certText)), pair("endpointConfigToEndpoints(p.Endpoints)", "DNil"),
		pair("endpoints.singleSignOnEndpoint.Absolute(issuer)", dStr(loc(idpD, "SingleSignOnService"))),
		pair("endpoints.singleLogoutEndpoint.Absolute(issuer)", dStr(loc(idpD, "SingleLogoutService"))),
		pair("endpoints.attributeEndpoint.Absolute(issuer)", dStr(loc(aaD, "AttributeService"))),
		pair("time.Now().Add(p.MetadataIDPConfig.ValidUntil).UTC().Format(timeFormat)", dStr(idpD.attr("validUntil"))),
	}
	idpConf := dObj("provider.IdentityProviderConfig", "EncryptionAlgorithm", dStr(p.Enc), "WantAuthRequestsSigned", dStr(p.Want),
		"MetadataIDPConfig", dObj("provider.MetadataIDPConfig", "ValidUntil", dStr("nonzero"), "CacheDuration", dStr(p.Cache), "ErrorURL", dStr(p.ErrURL)), "Endpoints", "DNil")
	org, contact := "DNil", "DNil"
	if p.Org != nil {
		org = dObj("provider.Organisation", "Name", dStr(p.Org[0]), "DisplayName", dStr(p.Org[1]), "URL", dStr(p.Org[2]))
	}
	if p.Contact != nil {
		contact = dObj("provider.ContactPerson", "ContactType", dStr(p.Contact[0]), "Company", dStr(p.Contact[1]), "GivenName", dStr(p.Contact[2]), "SurName", dStr(p.Contact[3]),
			"EmailAddress", dStr(p.Contact[4]), "TelephoneNumber", dStr(p.Contact[5]))
	}
	conf := dObj("provider.Config", "IDPConfig", idpConf, "Organisation", org, "ContactPerson", contact)
	idpObj := dObj("provider.IdentityProvider", "conf", idpConf, "TimeFormat", dStr("format"))
	fresh := []string{t.attr("ID"), idpD.attr("ID"), aaD.attr("ID")}
	return fmt.Sprintf("%s %s %s %s %s %s %s", coqgen.Z(int64(id)), coqgen.List(extra), coqStr("Config.getMetadata"), "(Some "+conf+")",
		coqgen.List([]string{"DNil", idpObj}), coqgen.BytesList(fresh), t.coq()), true
}
