package c18

import (
	"encoding/xml"
	"fmt"
	"math/rand"
	"reflect"
	"strconv"
	"strings"

	"verif/harness/internal/coqgen"
)

// gvalOf renders a Go value of one of the library's XML model types as the generic value of Xml/Schema.v:
// exported fields in declaration order, nothing of the struct tags (the model reads those from the generated schema).
func gvalOf(v reflect.Value) (string, error) {
	switch v.Kind() {
	case reflect.Ptr:
		if v.IsNil() {
			return "VNil", nil
		}
		s, err := gvalOf(v.Elem())
		return "(VPtr " + s + ")", err
	case reflect.Struct:
		if v.Type() == reflect.TypeOf(xml.Name{}) {
			n := v.Interface().(xml.Name)
			return fmt.Sprintf("(VName %s %s)", coqgen.Bytes(n.Space), coqgen.Bytes(n.Local)), nil
		}
		var fs []string
		for i := 0; i < v.NumField(); i++ {
			if !v.Type().Field(i).IsExported() {
				continue
			}
			s, err := gvalOf(v.Field(i))
			if err != nil {
				return "", err
			}
			fs = append(fs, s)
		}
		return "(VStruct " + coqgen.List(fs) + ")", nil
	case reflect.Slice:
		if v.Type().Elem().Kind() == reflect.Uint8 {
			return "", fmt.Errorf("[]byte field")
		}
		var xs []string
		for i := 0; i < v.Len(); i++ {
			s, err := gvalOf(v.Index(i))
			if err != nil {
				return "", err
			}
			xs = append(xs, s)
		}
		return "(VList " + coqgen.List(xs) + ")", nil
	case reflect.String:
		return "(VStr " + coqgen.Bytes(v.String()) + ")", nil
	case reflect.Bool:
		return fmt.Sprintf("(VScalar %s %s)", coqgen.Bytes(strconv.FormatBool(v.Bool())), coqgen.Bool(!v.Bool())), nil
	case reflect.Int, reflect.Int8, reflect.Int16, reflect.Int32, reflect.Int64:
		return fmt.Sprintf("(VScalar %s %s)", coqgen.Bytes(strconv.FormatInt(v.Int(), 10)), coqgen.Bool(v.Int() == 0)), nil
	case reflect.Uint, reflect.Uint8, reflect.Uint16, reflect.Uint32, reflect.Uint64:
		return fmt.Sprintf("(VScalar %s %s)", coqgen.Bytes(strconv.FormatUint(v.Uint(), 10)), coqgen.Bool(v.Uint() == 0)), nil
	}
	return "", fmt.Errorf("kind %s", v.Kind())
}

// typeKey is the schema key of a model type: last element of the package path + "." + type name
func typeKey(t reflect.Type) string {
	for t.Kind() == reflect.Ptr {
		t = t.Elem()
	}
	p := t.PkgPath()
	return p[strings.LastIndex(p, "/")+1:] + "." + t.Name()
}

// fillShape fills a model value with data and with a random shape: pointers nil or set, slices of 0..2 elements,
// strings empty or not, numbers and booleans zero or not, runtime XMLName values set on some structs.
func fillShape(v reflect.Value, depth int, r *rand.Rand, gen func() string) {
	switch v.Kind() {
	case reflect.Ptr:
		if depth <= 0 || r.Intn(4) == 0 {
			return
		}
		v.Set(reflect.New(v.Type().Elem()))
		fillShape(v.Elem(), depth, r, gen)
	case reflect.Struct:
		if v.Type() == reflect.TypeOf(xml.Name{}) {
			if r.Intn(5) == 0 {
				v.Set(reflect.ValueOf(xml.Name{Space: []string{"", "urn:example:ns"}[r.Intn(2)], Local: "RuntimeName"}))
			}
			return
		}
		for i := 0; i < v.NumField(); i++ {
			f := v.Type().Field(i)
			tag := f.Tag.Get("xml")
			if !f.IsExported() || tag == "-" || strings.Contains(tag, ",innerxml") {
				continue
			}
			fillShape(v.Field(i), depth-1, r, gen)
		}
	case reflect.Slice:
		if depth <= 0 || v.Type().Elem().Kind() == reflect.Uint8 {
			return
		}
		n := r.Intn(3)
		if n == 0 {
			return
		}
		s := reflect.MakeSlice(v.Type(), n, n)
		for i := 0; i < n; i++ {
			fillShape(s.Index(i), depth, r, gen)
		}
		v.Set(s)
	case reflect.String:
		if r.Intn(5) != 0 {
			v.SetString(gen())
		}
	case reflect.Bool:
		v.SetBool(r.Intn(2) == 0)
	case reflect.Int, reflect.Int8, reflect.Int16, reflect.Int32, reflect.Int64:
		v.SetInt(int64(r.Intn(3)) * 1024)
	case reflect.Uint, reflect.Uint8, reflect.Uint16, reflect.Uint32, reflect.Uint64:
		v.SetUint(uint64(r.Intn(3)) * 7)
	}
}
