// Package logout drives the single-logout endpoint (C13, logout part of C02).
package logout

import (
	"encoding/json"
	"fmt"
	"math/rand"
	"net/http"
	"os"
	"path/filepath"
	"strings"
	"time"

	"github.com/zitadel/saml/pkg/provider"
	samlxml "github.com/zitadel/saml/pkg/provider/xml"

	"verif/harness/internal/coqgen"
	"verif/harness/internal/idp"
	"verif/harness/internal/sso"
)

const issuer = "https://idp.example/saml"
const spEntity = "https://sp.example/metadata"
const statusSuccess = "urn:oasis:names:tc:SAML:2.0:status:Success"

type Req struct {
	ID, IssueInstant, NotOnOrAfter, Issuer *string
	NameID                                 *string
	SessionIndex                           bool
	Trailing                               string
	Raw                                    *string // raw SAMLRequest value
}

func (q Req) XML() []byte {
	var sb strings.Builder
	sb.WriteString(`<samlp:LogoutRequest xmlns:samlp="urn:oasis:names:tc:SAML:2.0:protocol" xmlns:saml="urn:oasis:names:tc:SAML:2.0:assertion"`)
	at := func(n string, v *string) {
		if v != nil {
			fmt.Fprintf(&sb, ` %s="%s"`, n, idp.EscAttr(*v))
		}
	}
	at("ID", q.ID)
	sb.WriteString(` Version="2.0"`)
	at("IssueInstant", q.IssueInstant)
	at("NotOnOrAfter", q.NotOnOrAfter)
	sb.WriteString(">")
	if q.Issuer != nil {
		fmt.Fprintf(&sb, "<saml:Issuer>%s</saml:Issuer>", idp.EscAttr(*q.Issuer))
	}
	if q.NameID != nil {
		fmt.Fprintf(&sb, "<saml:NameID>%s</saml:NameID>", idp.EscAttr(*q.NameID))
	}
	if q.SessionIndex {
		sb.WriteString("<samlp:SessionIndex>_sess</samlp:SessionIndex>")
	}
	sb.WriteString("</samlp:LogoutRequest>")
	sb.WriteString(q.Trailing)
	return []byte(sb.String())
}

type Scenario struct {
	Mut       string      `json:"mut"`
	Req       Req         `json:"req"`
	Transport string      `json:"transport"` // post | redirect | post-deflate-declared
	Relay     string      `json:"relay"`
	SLO       []idp.SLO   `json:"slo"`
	Known     bool        `json:"registered"`
	Extra     []idp.Param `json:"extra,omitempty"`
	Fault     *idp.Fault  `json:"fault,omitempty"`
}

type Obs struct {
	Kind                                     int
	Status, IRT, Issuer, Dest, Target, Relay string
}

func pick[T any](r *rand.Rand, xs []T) T { return xs[r.Intn(len(xs))] }

var relays = []string{"", "rs", "a b&c=d", "<\"'>", "ü€😀", "x\ny", "%41+"}

func extraKeys() []string {
	// parameter names the handler reads beyond the documented three (from go2v's facts), plus a few plausible ones
	keys := []string{"ReturnTo", "LogoutURL", "Destination", "redirect_uri", "ResponseLocation", "url"}
	exe, _ := os.Executable()
	root := filepath.Dir(filepath.Dir(exe))
	if b, err := os.ReadFile(filepath.Join(root, "coq", "Gen", "facts.json")); err == nil {
		var m map[string][]string
		if json.Unmarshal(b, &m) == nil {
			for _, lst := range [][]string{m["logout_form_keys"], m["logout_handler_keys"]} {
				for _, k := range lst {
					if i := strings.Index(k, ":"); i >= 0 {
						k = k[i+1:]
					}
					if k != "SAMLRequest" && k != "SAMLEncoding" && k != "RelayState" {
						keys = append(keys, k)
					}
				}
			}
		}
	}
	return keys
}

func scenarios(r *rand.Rand, n int) []*Scenario {
	now := time.Now().UTC()
	at := func(d time.Duration) *string { return idp.S(now.Add(d).Format(sso.TimeFmt)) }
	base := func(i int) *Scenario {
		return &Scenario{Req: Req{ID: idp.S(fmt.Sprintf("_lo%d", i)), IssueInstant: at(-time.Minute), Issuer: idp.S(spEntity), NameID: idp.S("user")},
			Transport: pick(r, []string{"post", "post", "redirect", "post-deflate-declared"}), Relay: pick(r, relays), Known: true,
			SLO: [][]idp.SLO{nil, {{Binding: idp.PostBinding, Location: "https://sp.example/slo"}}, {{Binding: idp.RedirBinding, Location: "https://sp.example/slo-redirect?x=1&y=2"}, {Binding: idp.PostBinding, Location: "https://sp.example/slo2"}},
				{{Binding: idp.PostBinding, Location: "https://sp.example/ü's"}},
				{{Binding: idp.PostBinding, Location: "https://sp.example/slo", ResponseLocation: "https://responses.example/slo-return"}},
				{{Binding: idp.PostBinding, Location: "https://sp.example/slo-a"}, {Binding: idp.PostBinding, Location: "https://sp.example/slo-b", ResponseLocation: "https://sp.example/slo-b-return"}},
				{{Binding: "urn:oasis:names:tc:SAML:2.0:bindings:SOAP", Location: "https://sp.example/slo-soap"}, {Binding: idp.PostBinding, Location: "http://sp.example:8080/slo"}}}[r.Intn(7)]}
	}
	var out []*Scenario
	muts := []func(*Scenario){
		func(s *Scenario) { s.Mut = "valid" },
		func(s *Scenario) { s.Mut = "valid" },
		func(s *Scenario) { s.Mut = "no-issue-instant"; s.Req.IssueInstant = nil },
		func(s *Scenario) {
			s.Mut = "issue-instant-future"
			s.Req.IssueInstant = at(pick(r, []time.Duration{10 * time.Second, time.Hour, 24 * 365 * time.Hour}))
		},
		func(s *Scenario) {
			s.Mut = "issue-instant-unparsable"
			s.Req.IssueInstant = idp.S(pick(r, []string{"yesterday", now.Format("2006-01-02T15:04:05+01:00"), now.Format("2006-01-02 15:04:05")}))
		},
		func(s *Scenario) {
			s.Mut = "notonorafter-passed"
			s.Req.NotOnOrAfter = at(-pick(r, []time.Duration{10 * time.Second, time.Hour}))
		},
		func(s *Scenario) {
			s.Mut = "notonorafter-extreme"
			s.Req.NotOnOrAfter = idp.S(pick(r, []string{"0001-01-01T00:00:00Z", "1970-01-01T00:00:00Z"}))
		},
		func(s *Scenario) { s.Mut = "notonorafter-future"; s.Req.NotOnOrAfter = at(time.Hour) },
		func(s *Scenario) { s.Mut = "notonorafter-unparsable"; s.Req.NotOnOrAfter = idp.S("soon") },
		func(s *Scenario) { s.Mut = "issuer-unknown"; s.Req.Issuer = idp.S("https://other.example/md") },
		func(s *Scenario) { s.Mut = "issuer-absent"; s.Req.Issuer = nil },
		func(s *Scenario) { s.Mut = "issuer-lookalike"; s.Req.Issuer = idp.S(spEntity + "/") },
		func(s *Scenario) { s.Mut = "issuer-padded"; s.Req.Issuer = idp.S(" " + spEntity + "\n") },
		func(s *Scenario) { s.Mut = "issuer-case"; s.Req.Issuer = idp.S(strings.ToUpper(spEntity)) },
		func(s *Scenario) { s.Mut = "issuer-empty"; s.Req.Issuer = idp.S("") },
		func(s *Scenario) { s.Mut = "sp-unregistered"; s.Known = false },
		func(s *Scenario) { s.Mut = "no-nameid"; s.Req.NameID = nil; s.Req.SessionIndex = true },
		func(s *Scenario) { s.Mut = "no-id"; s.Req.ID = nil },
		func(s *Scenario) {
			s.Mut = "hostile-id"
			s.Req.ID = idp.S(pick(r, []string{"a\"b<c>&", "id with space", "ü"}))
		},
		func(s *Scenario) { s.Mut = "garbage"; s.Req.Raw = idp.S(pick(r, []string{"", "%%%", "Z2FyYmFnZQ=="})) },
		func(s *Scenario) { s.Mut = "trailing-garbage"; s.Req.Trailing = "<<<x" },
		func(s *Scenario) { s.Mut = "unknown-encoding"; s.Transport = "post-unknown-encoding" },
		func(s *Scenario) {
			s.Mut = "lookup-fault"
			s.Fault = &idp.Fault{Op: "GetEntityByID", Nth: 1, Kind: "error"}
		},
		func(s *Scenario) {
			s.Mut = "extra-params"
			for _, k := range extraKeys() {
				s.Extra = append(s.Extra, idp.Q(k, "https://attacker.example/collect"))
			}
		},
	}
	for i := 0; i < n; i++ {
		s := base(i)
		muts[i%len(muts)](s)
		out = append(out, s)
	}
	return out
}

func (s *Scenario) build() idp.ReqSpec {
	doc := s.Req.XML()
	var params []idp.Param
	msg := idp.B64(doc)
	switch s.Transport {
	case "redirect":
		msg = idp.DeflateB64(doc)
	case "post-deflate-declared":
		msg = idp.DeflateB64(doc)
	}
	if s.Req.Raw != nil {
		msg = *s.Req.Raw
	}
	params = append(params, idp.Q("SAMLRequest", msg))
	if s.Relay != "" {
		params = append(params, idp.Q("RelayState", s.Relay))
	}
	switch s.Transport {
	case "post-deflate-declared":
		params = append(params, idp.Q("SAMLEncoding", idp.Deflate))
	case "post-unknown-encoding":
		params = append(params, idp.Q("SAMLEncoding", "urn:unknown"))
	}
	params = append(params, s.Extra...)
	if s.Transport == "redirect" {
		return idp.ReqSpec{Method: http.MethodGet, Path: "/SLO", Query: params}
	}
	return idp.ReqSpec{Method: http.MethodPost, Path: "/SLO", Body: params}
}

func project(rep *idp.Reply) Obs {
	o := Obs{}
	switch rep.Kind {
	case "saml-body":
		o.Kind = 2
	case "saml-post":
		o.Kind = 3
		o.Target, o.Relay = rep.FormAction, rep.FormRelay
	case "http-error":
		o.Kind = 5
	case "panic":
		o.Kind = 6
	default:
		o.Kind = 7
	}
	if d := rep.Doc; d != nil && d.Local == "LogoutResponse" {
		o.Status = rep.Status
		o.IRT = d.AttrOr("InResponseTo", "")
		o.Dest = d.AttrOr("Destination", "")
		o.Issuer = d.Child("Issuer").TextOf()
	}
	return o
}

// Run executes the logout harness for C13 (and the logout oracle of C02).
func Run(prop, dir, tier string, seed int64) error {
	run := coqgen.NewRun(dir, prop, tier, seed)
	run.Imports = "From Saml Require Import Base.Bytes Gen.Pure Idp.Sso Idp.Logout Xml.Unmarshal Corr.LogoutCorr."
	run.CaseType = "lo_case"
	run.BadFn = "lo_bad"
	run.PerShard = 150
	r := rand.New(rand.NewSource(seed))
	n := 420
	if tier == "thorough" {
		n = 4200
	}
	env, err := idp.NewEnv(idp.EnvConfig{Issuer: issuer})
	if err != nil {
		return err
	}
	st := env.Storage
	for id, s := range scenarios(r, n) {
		st.ClearSPs()
		st.Faults = nil
		meta := sso.BaseSP(nil, true)
		meta.SLO = s.SLO
		if s.Known {
			if _, err := st.Register("app-1", meta); err != nil {
				return err
			}
		}
		spec := s.build()
		// abstract inputs
		probe := spec.HTTP()
		formOK := probe.ParseForm() == nil
		var form [3]string
		if formOK {
			form = [3]string{probe.Form.Get("SAMLRequest"), probe.Form.Get("SAMLEncoding"), probe.Form.Get("RelayState")}
			if _, ok := probe.URL.Query()["SAMLRequest"]; ok && form[1] == "" {
				form[1] = idp.Deflate
			}
		}
		coqForm, coqDec, coqSP := "None", "None", "None"
		docTree, spDoc := "None", "None"
		times := map[string]*int64{}
		var decIssuer *string
		decoded := false
		decID := ""
		if formOK {
			coqForm = fmt.Sprintf("(Some {| lf_req := %s; lf_enc := %s; lf_relay := %s |})", coqgen.Opaque(form[0]), coqgen.Bytes(form[1]), coqgen.Bytes(form[2]))
			if data, derr := samlxml.InflateAndDecode(form[1], true, form[0]); derr == nil {
				docTree = idp.DocTreeTerm(data)
			}
			if q, err := samlxml.DecodeLogoutRequest(form[1], form[0]); err == nil {
				decoded = true
				decID = q.Id
				iss := "None"
				if q.Issuer != nil {
					iss = "(Some " + coqgen.Bytes(q.Issuer.Text) + ")"
					decIssuer = &q.Issuer.Text
				}
				coqDec = fmt.Sprintf("(Some {| lq_id := %s; lq_issue_instant := %s; lq_not_on_or_after := %s; lq_issuer := %s; lq_has_nameid := %s |})",
					coqgen.Bytes(q.Id), coqgen.Bytes(q.IssueInstant), coqgen.Bytes(q.NotOnOrAfter), iss, coqgen.Bool(q.NameID != nil))
				for _, ts := range []string{q.IssueInstant, q.NotOnOrAfter} {
					if ts == "" {
						continue
					}
					if t, err := time.Parse(provider.DefaultTimeFormat, ts); err == nil {
						v := t.UnixMicro()
						times[ts] = &v
					} else {
						times[ts] = nil
					}
				}
				if q.Issuer != nil && s.Fault == nil {
					if sp, ok := st.SPs[q.Issuer.Text]; ok {
						coqSP = sso.CoqSP(sp)
						spDoc = st.SPDocTerm(sp)
					}
				}
			}
		}
		var tl []string
		for k, v := range times {
			if v == nil {
				tl = append(tl, fmt.Sprintf("(%s, IBad)", coqgen.Bytes(k)))
			} else {
				tl = append(tl, fmt.Sprintf("(%s, IAt %s)", coqgen.Bytes(k), coqgen.Z(*v)))
			}
		}
		st.ResetLog()
		if s.Fault != nil {
			st.Faults = []idp.Fault{*s.Fault}
		}
		now := time.Now()
		rep := env.Do(spec.HTTP())
		o := project(rep)
		run.Res.Evaluations++
		obs := fmt.Sprintf("{| lo_kind := %s; lo_status := %s; lo_irt := %s; lo_issuer := %s; lo_dest := %s; lo_target := %s; lo_relay := %s |}",
			coqgen.Z(int64(o.Kind)), coqgen.Bytes(o.Status), coqgen.Bytes(o.IRT), coqgen.Bytes(o.Issuer), coqgen.Bytes(o.Dest), coqgen.Bytes(o.Target), coqgen.Bytes(o.Relay))
		coq := fmt.Sprintf("{| lc_id := %s; lc_form := %s; lc_dec := %s; lc_sp := %s; lc_times := %s; lc_now := %s; lc_eid := %s; lc_obs := %s; lc_spdoc := %s; lc_doc := %s |}",
			coqgen.Z(int64(id)), coqForm, coqDec, coqSP, coqgen.List(tl), coqgen.Z(now.UnixMicro()), coqgen.Bytes(issuer+"/metadata"), obs, spDoc, docTree)
		desc := map[string]interface{}{"scenario": s, "request": spec, "document": string(s.Req.XML()), "observed": o, "reply_kind": rep.Kind, "code": rep.Code, "panic": rep.Panic}
		run.AddCase(id, coq, desc)
		run.Count("mut=" + s.Mut)
		run.Count("reply=" + rep.Kind)
		run.Distinct(fmt.Sprintf("%s/%s/slo%d->%d/%s", s.Mut, s.Transport, len(s.SLO), o.Kind, o.Status))
		if id%41 == 7 {
			run.Sample(map[string]interface{}{"mut": s.Mut, "request": spec, "observed": o})
		}
		fail := func(class, what string) { run.Fail(coqgen.Failure{ID: id, Class: class, What: what, Input: desc}) }
		// ---- independent oracle
		if o.Kind == 6 {
			fail("panic:logout", rep.Panic)
			continue
		}
		registered := map[string]bool{}
		first := ""
		if s.Known {
			for i, l := range s.SLO {
				registered[l.Location] = true
				if i == 0 {
					first = l.Location
				}
			}
		}
		valid := decoded && decIssuer != nil && s.Known && *decIssuer == spEntity && s.Fault == nil
		if valid {
			if ts := deref(s.Req.IssueInstant); ts != "" {
				t, err := time.Parse(provider.DefaultTimeFormat, ts)
				valid = err == nil && !t.After(now.Add(2*time.Second))
			}
		}
		if valid {
			if ts := deref(s.Req.NotOnOrAfter); ts != "" {
				t, err := time.Parse(provider.DefaultTimeFormat, ts)
				valid = err == nil && t.After(now.Add(-2*time.Second))
			}
		}
		if s.Req.Raw != nil || s.Req.Trailing != "" {
			valid = false
		}
		if o.Kind != 2 && o.Kind != 3 {
			fail("logout-reply-not-a-logoutresponse", fmt.Sprintf("reply kind %s code %d", rep.Kind, rep.Code))
			continue
		}
		if (o.Status == statusSuccess) && !valid {
			fail("logout-success-for-invalid-request", "Success although the request is invalid: "+s.Mut)
		}
		if o.Status != statusSuccess && valid && prop == "C13" {
			fail("logout-valid-request-denied", "valid request answered with "+o.Status)
		}
		if decoded && o.IRT != decID {
			fail("logout-inresponseto-not-echoed", fmt.Sprintf("InResponseTo %q, request ID %q", o.IRT, decID))
		}
		if o.Issuer != issuer+"/metadata" {
			fail("logout-issuer-not-idp-entity", o.Issuer)
		}
		if o.Kind == 3 {
			want := first
			if !(valid) {
				want = "\x00none"
			}
			// the form action is URL-normalised by html/template: compare after decoding what both sides agree on
			if !registered[o.Dest] || o.Dest != want {
				fail("logout-posted-to-unregistered-url", fmt.Sprintf("posted to %q (Destination %q); first registered SLO location %q", o.Target, o.Dest, first))
			}
			if o.Relay != form[2] {
				fail("logout-relaystate-changed", fmt.Sprintf("RelayState %q, request %q", o.Relay, form[2]))
			}
		} else if valid && first != "" {
			fail("logout-not-posted-to-registered-slo", "valid request, SLO registered, but the response was returned in the body")
		}
	}
	run.Res.Rule = "logout requests over 21 mutation classes (valid; IssueInstant absent / future / unparsable; NotOnOrAfter passed / extreme / future / unparsable; Issuer unknown / absent / look-alike; SP unregistered; NameID absent; ID absent / hostile; undecodable; trailing garbage; unknown encoding; storage fault; extra request parameters named after every parameter the handler reads plus plausible names) x transport {POST, Redirect+DEFLATE, POST with declared DEFLATE} x SP metadata with 0-2 SingleLogoutService entries x RelayState alphabet; real handler vs Coq model (status, InResponseTo, Issuer, Destination, form action, RelayState) and an independent oracle. distinct = (mutation, transport, #SLO, reply kind, status)."
	return run.Finish()
}

func deref(p *string) string {
	if p == nil {
		return ""
	}
	return *p
}
