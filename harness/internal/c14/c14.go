// Package c14: decompression bombs. Measures allocation around one ServeHTTP and checks accept/reject against the model.
package c14

import (
	"bytes"
	"compress/flate"
	"compress/gzip"
	"compress/zlib"
	"encoding/base64"
	"fmt"
	"io"
	"net/http"
	"runtime"
	"strings"

	samlxml "github.com/zitadel/saml/pkg/provider/xml"

	"verif/harness/internal/coqgen"
	"verif/harness/internal/idp"
	"verif/harness/internal/sso"
)

const allocBase = 64 << 20 // fixed part of the bound, independent of the inflated size (io.ReadAll doubles its buffer: ~3x the 10 MB cap)

// allocBound: the fixed part plus a multiple of the REQUEST size (net/http, form parsing, percent- and base64-decoding each copy
// the request): proportional to what was sent, never to what it inflates to
func allocBound(requestBytes int) uint64 { return allocBase + 16*uint64(requestBytes) }

// bomb builds a document of the given inflated size with the padding at the given place, deflated without
// materialising more than a window at a time.
func bomb(size int, place string, valid bool) string { return bombIn("raw", size, place, valid) }

// bombIn wraps the stream in the given container: raw DEFLATE (what the binding specifies), zlib or gzip.
func bombIn(container string, size int, place string, valid bool) string {
	a := sso.BaseReq("_bomb")
	doc := string(a.XML(idp.DefaultStyle))
	var pre, post string
	switch place {
	case "comment":
		i := strings.Index(doc, ">") + 1
		pre, post = doc[:i]+"<!--", "-->"+doc[i:]
	case "text":
		i := strings.Index(doc, "</saml:Issuer>")
		pre, post = doc[:i], doc[i:]
	case "attribute":
		pre, post = strings.Replace(doc, ` Version="2.0"`, ` Version="2.0" Consent="`, 1), ""
		j := strings.Index(pre, `Consent="`) + len(`Consent="`)
		pre, post = pre[:j], `"`+pre[j:]
	default: // after-root
		pre, post = doc, ""
	}
	if !valid {
		post += "<unclosed"
	}
	var buf bytes.Buffer
	var w io.WriteCloser
	switch container {
	case "zlib":
		w, _ = zlib.NewWriterLevel(&buf, 9)
	case "gzip":
		w, _ = gzip.NewWriterLevel(&buf, 9)
	default:
		w, _ = flate.NewWriter(&buf, 9)
	}
	w.Write([]byte(pre))
	pad := size - len(pre) - len(post)
	chunk := bytes.Repeat([]byte("A"), 1<<16)
	for pad > 0 {
		n := len(chunk)
		if pad < n {
			n = pad
		}
		w.Write(chunk[:n])
		pad -= n
	}
	w.Write([]byte(post))
	w.Close()
	return base64.StdEncoding.EncodeToString(buf.Bytes())
}

func measure(f func()) uint64 {
	var m0, m1 runtime.MemStats
	runtime.GC()
	runtime.ReadMemStats(&m0)
	f()
	runtime.ReadMemStats(&m1)
	return m1.TotalAlloc - m0.TotalAlloc
}

func Run(dir, tier string, seed int64) error {
	run := coqgen.NewRun(dir, "C14", tier, seed)
	run.Imports = "From Saml Require Import Base.Bytes Corr.C14Corr."
	run.CaseType = "c14case"
	run.BadFn = "c14_bad"
	env, err := idp.NewEnv(idp.EnvConfig{Issuer: sso.IssuerURL})
	if err != nil {
		return err
	}
	env.Storage.Register("app-1", sso.BaseSP(nil, true))
	sizes := []int{1 << 20, 8 << 20, 10<<20 - 1, 10 << 20, 10<<20 + 1, 11 << 20, 32 << 20, 128 << 20}
	if tier == "thorough" {
		sizes = append(sizes, 512<<20, 1<<30)
	}
	id := 0
	// (1) the exported codec function: accept / reject and length, compared with the model
	for _, n := range sizes {
		msg := bomb(n, "after-root", true)
		var got []byte
		var derr error
		alloc := measure(func() { got, derr = samlxml.InflateAndDecode(idp.Deflate, true, msg) })
		run.Res.Evaluations++
		obs := "None"
		if derr == nil {
			obs = "(Some " + coqgen.Z(int64(len(got))) + ")"
		}
		desc := map[string]interface{}{"what": "InflateAndDecode", "inflated_bytes": n, "request_bytes": len(msg), "error": derr != nil, "total_alloc": alloc}
		run.AddCase(id, fmt.Sprintf("(%s, %s, %s)", coqgen.Z(int64(id)), coqgen.Z(int64(n)), obs), desc)
		run.Distinct(fmt.Sprintf("codec/%d", n))
		run.Sample(desc)
		if alloc > allocBound(len(msg)) {
			run.Fail(coqgen.Failure{ID: id, Class: "inflate-allocation-unbounded", What: fmt.Sprintf("InflateAndDecode allocated %d MiB for a %d kB message inflating to %d MiB", alloc>>20, len(msg)>>10, n>>20), Input: desc})
		}
		id++
	}
	// (2) through the endpoints: SSO via query and via form, logout; padding in different places, valid / invalid documents
	type ep struct {
		name string
		spec func(msg string) idp.ReqSpec
	}
	eps := []ep{
		{"sso-query", func(m string) idp.ReqSpec {
			return idp.ReqSpec{Method: http.MethodGet, Path: "/SSO", Query: []idp.Param{idp.Q("SAMLRequest", m)}}
		}},
		{"sso-form", func(m string) idp.ReqSpec {
			return idp.ReqSpec{Method: http.MethodPost, Path: "/SSO", Body: []idp.Param{idp.Q("SAMLRequest", m), idp.Q("SAMLEncoding", idp.Deflate)}}
		}},
		{"slo-query", func(m string) idp.ReqSpec {
			return idp.ReqSpec{Method: http.MethodGet, Path: "/SLO", Query: []idp.Param{idp.Q("SAMLRequest", m)}}
		}},
		{"sso-form-undeclared", func(m string) idp.ReqSpec { // a deflated payload in a POST form that does not say so
			return idp.ReqSpec{Method: http.MethodPost, Path: "/SSO", Body: []idp.Param{idp.Q("SAMLRequest", m)}}
		}},
		{"slo-form-undeclared", func(m string) idp.ReqSpec {
			return idp.ReqSpec{Method: http.MethodPost, Path: "/SLO", Body: []idp.Param{idp.Q("SAMLRequest", m)}}
		}},
		{"slo-form", func(m string) idp.ReqSpec {
			return idp.ReqSpec{Method: http.MethodPost, Path: "/SLO", Body: []idp.Param{idp.Q("SAMLRequest", m), idp.Q("SAMLEncoding", idp.Deflate)}}
		}},
	}
	big := []int{1 << 20, 64 << 20, 256 << 20}
	if tier == "thorough" {
		big = append(big, 1<<30)
	}
	// every endpoint sees every size; padding place and document validity rotate so that each (endpoint, place) and
	// (endpoint, validity) pair occurs with a payload far above the cap
	places := []string{"comment", "text", "attribute", "after-root"}
	cache := map[string]string{}
	k := 0
	for ei, e := range eps {
		for ni, n := range big {
			combos := 1
			if n == 64<<20 {
				combos = 4
				if tier == "thorough" {
					combos = 8
				}
			}
			for c := 0; c < combos; c++ {
				place := places[(ei+ni+c)%len(places)]
				valid := (c/4+ei+k)%2 == 0
				if combos >= 4 {
					place = places[c%4]
				}
				k++
				key := fmt.Sprintf("%d/%s/%v", n, place, valid)
				msg, ok := cache[key]
				if !ok {
					msg = bomb(n, place, valid)
					cache[key] = msg
				}
				var rep *idp.Reply
				env.Storage.ResetLog()
				alloc := measure(func() { rep = env.Do(e.spec(msg).HTTP()) })
				run.Res.Evaluations++
				accepted := env.Storage.CountOp("CreateAuthRequest") > 0 || rep.Status == "urn:oasis:names:tc:SAML:2.0:status:Success"
				desc := map[string]interface{}{"endpoint": e.name, "inflated_bytes": n, "request_bytes": len(msg), "padding": place, "valid_document": valid, "accepted": accepted, "total_alloc": alloc, "reply": rep.Kind, "code": rep.Code}
				run.Count("endpoint=" + e.name)
				run.Distinct(fmt.Sprintf("%s/%d/%s/%v", e.name, n, place, valid))
				if alloc > allocBound(len(msg)) {
					run.Fail(coqgen.Failure{ID: id, Class: "inflate-allocation-unbounded", What: fmt.Sprintf("%s allocated %d MiB for a %d kB request inflating to %d MiB", e.name, alloc>>20, len(msg)>>10, n>>20), Input: desc})
				}
				if n > 10<<20 && accepted {
					run.Fail(coqgen.Failure{ID: id, Class: "oversized-payload-accepted", What: fmt.Sprintf("%s accepted a payload inflating to %d MiB", e.name, n>>20), Input: desc})
				}
				if rep.Kind == "panic" {
					run.Fail(coqgen.Failure{ID: id, Class: "panic:inflate", What: rep.Panic, Input: desc})
				}
				id++
			}
		}
	}
	// (3) the same bombs in other containers a lenient decoder might also accept (zlib, gzip): must be rejected cheaply too
	for _, container := range []string{"zlib", "gzip"} {
		for i, place := range []string{"comment", "after-root"} {
			n := 64 << 20
			msg := bombIn(container, n, place, true)
			var derr error
			alloc := measure(func() { _, derr = samlxml.InflateAndDecode(idp.Deflate, true, msg) })
			run.Res.Evaluations++
			desc := map[string]interface{}{"what": "InflateAndDecode", "container": container, "inflated_bytes": n, "request_bytes": len(msg), "padding": place, "error": derr != nil, "total_alloc": alloc}
			run.Distinct(fmt.Sprintf("codec/%s/%s", container, place))
			if alloc > allocBound(len(msg)) {
				run.Fail(coqgen.Failure{ID: id, Class: "inflate-allocation-unbounded", What: fmt.Sprintf("InflateAndDecode allocated %d MiB for a %d kB %s message inflating to %d MiB", alloc>>20, len(msg)>>10, container, n>>20), Input: desc})
			}
			if derr == nil {
				run.Fail(coqgen.Failure{ID: id, Class: "oversized-payload-accepted", What: fmt.Sprintf("InflateAndDecode returned a %s payload inflating to %d MiB", container, n>>20), Input: desc})
			}
			id++
			e := eps[(i*2+len(container))%len(eps)]
			var rep *idp.Reply
			env.Storage.ResetLog()
			alloc = measure(func() { rep = env.Do(e.spec(msg).HTTP()) })
			run.Res.Evaluations++
			accepted := env.Storage.CountOp("CreateAuthRequest") > 0 || rep.Status == "urn:oasis:names:tc:SAML:2.0:status:Success"
			desc = map[string]interface{}{"endpoint": e.name, "container": container, "inflated_bytes": n, "request_bytes": len(msg), "padding": place, "accepted": accepted, "total_alloc": alloc, "reply": rep.Kind, "code": rep.Code}
			run.Count("endpoint=" + e.name)
			run.Distinct(fmt.Sprintf("%s/%s/%s", e.name, container, place))
			if alloc > allocBound(len(msg)) {
				run.Fail(coqgen.Failure{ID: id, Class: "inflate-allocation-unbounded", What: fmt.Sprintf("%s allocated %d MiB for a %d kB %s request inflating to %d MiB", e.name, alloc>>20, len(msg)>>10, container, n>>20), Input: desc})
			}
			if accepted {
				run.Fail(coqgen.Failure{ID: id, Class: "oversized-payload-accepted", What: fmt.Sprintf("%s accepted a %s payload inflating to %d MiB", e.name, container, n>>20), Input: desc})
			}
			id++
		}
	}
	// (4) compression announced at the transport level: the body itself is a compressed stream and the request says so in
	// Content-Encoding (or Transfer-Encoding); whatever the provider makes of that header, it must not inflate without a bound
	{
		body := func(container string, n int, soap bool) string {
			var buf bytes.Buffer
			var w io.WriteCloser
			switch container {
			case "zlib":
				w, _ = zlib.NewWriterLevel(&buf, 9)
			case "gzip":
				w, _ = gzip.NewWriterLevel(&buf, 9)
			default:
				w, _ = flate.NewWriter(&buf, 9)
			}
			pre, post := "SAMLRequest=", "&RelayState=x"
			if soap {
				pre, post = `<soap:Envelope xmlns:soap="http://schemas.xmlsoap.org/soap/envelope/"><soap:Body><!--`, `--></soap:Body></soap:Envelope>`
			}
			w.Write([]byte(pre))
			chunk := bytes.Repeat([]byte("A"), 1<<16)
			for left := n; left > 0; left -= len(chunk) {
				w.Write(chunk)
			}
			w.Write([]byte(post))
			w.Close()
			return buf.String()
		}
		type enc struct{ header, value, container string }
		encs := []enc{{"Content-Encoding", "deflate", "raw"}, {"Content-Encoding", "deflate", "zlib"}, {"Content-Encoding", "gzip", "gzip"}, {"Content-Encoding", "x-gzip", "gzip"}, {"Content-Encoding", "DEFLATE", "raw"},
			{"Transfer-Encoding", "gzip", "gzip"}}
		paths := []string{"/SSO", "/SLO", "/attribute", "/login", "/metadata"}
		tsizes := []int{64 << 20, 256 << 20}
		bodies := map[string]string{}
		for pi, path := range paths {
			for ei, e := range encs {
				n := tsizes[(pi+ei)%len(tsizes)]
				soap := path == "/attribute"
				key := fmt.Sprintf("%s/%d/%v", e.container, n, soap)
				b, ok := bodies[key]
				if !ok {
					b = body(e.container, n, soap)
					bodies[key] = b
				}
				ct := "application/x-www-form-urlencoded"
				if soap {
					ct = "text/xml"
				}
				spec := idp.ReqSpec{Method: http.MethodPost, Path: path, RawBody: &b, Header: map[string][]string{e.header: {e.value}, "Content-Type": {ct}}}
				var rep *idp.Reply
				env.Storage.ResetLog()
				alloc := measure(func() { rep = env.Do(spec.HTTP()) })
				run.Res.Evaluations++
				accepted := env.Storage.CountOp("CreateAuthRequest") > 0 || rep.Status == "urn:oasis:names:tc:SAML:2.0:status:Success"
				desc := map[string]interface{}{"endpoint": path, "header": e.header + ": " + e.value, "container": e.container, "inflated_bytes": n, "request_bytes": len(b), "accepted": accepted, "total_alloc": alloc, "reply": rep.Kind, "code": rep.Code}
				run.Count("transport-encoding=" + e.header + ":" + e.value)
				run.Distinct(fmt.Sprintf("transport/%s/%s/%s", path, e.value, e.container))
				if alloc > allocBound(len(b)) {
					run.Fail(coqgen.Failure{ID: id, Class: "inflate-allocation-unbounded", What: fmt.Sprintf("%s with %s: %s allocated %d MiB for a %d kB body inflating to %d MiB", path, e.header, e.value, alloc>>20, len(b)>>10, n>>20), Input: desc})
				}
				if accepted {
					run.Fail(coqgen.Failure{ID: id, Class: "oversized-payload-accepted", What: fmt.Sprintf("%s accepted a compressed body inflating to %d MiB", path, n>>20), Input: desc})
				}
				if rep.Kind == "panic" {
					run.Fail(coqgen.Failure{ID: id, Class: "panic:inflate", What: rep.Panic, Input: desc})
				}
				id++
			}
		}
	}
	run.Res.Rule = "DEFLATE payloads inflating to 1 MiB .. 128 MiB (thorough: 1 GiB) around the 10 MiB cap (cap-1, cap, cap+1) through the exported InflateAndDecode (result compared with the Coq read-loop model) and, with the padding in a comment / text / attribute value / after the root element, nested in valid and invalid documents, through SSO (query, form, form without SAMLEncoding) and logout (query, form, form without SAMLEncoding); the same 64 MiB bombs wrapped as zlib and gzip streams; request bodies that are themselves raw-deflate / zlib / gzip streams inflating to 64 and 256 MiB, announced by Content-Encoding (deflate, gzip, x-gzip, upper case) or Transfer-Encoding, at every route; runtime.MemStats.TotalAlloc around each call must stay below 64 MiB + 16 x the request size (never a function of the inflated size) and oversized payloads must not be accepted. distinct = (entry point, inflated size, padding place, document validity)."
	return run.Finish()
}
