// Package c07: everything a conformant, registered service provider may send must be accepted. A generator of
// schema-valid AuthnRequests / LogoutRequests / AttributeQueries over serialisation, binding, signing and percent-encoding
// choices; the AuthnRequests also run through the Coq SSO model.
package c07

import (
	"fmt"
	"math/rand"
	"net/http"
	"strings"
	"time"

	"verif/harness/internal/coqgen"
	"verif/harness/internal/idp"
	"verif/harness/internal/sso"
)

func instant(t time.Time, digits int) string {
	s := t.UTC().Format("2006-01-02T15:04:05")
	if digits > 0 {
		frac := fmt.Sprintf("%09d", t.Nanosecond())
		s += "." + frac[:digits]
	}
	return s + "Z"
}

var styles = []idp.Style{idp.DefaultStyle, {P: "p", A: "a"}, {P: "", A: "saml"}, {P: "samlp", A: ""}, {P: "samlp", A: "saml", Decl: true}, {P: "samlp", A: "saml", Indent: true}, {P: "samlp", A: "saml", SingleQuote: true},
	{P: "saml2p", A: "saml2", Decl: true, Indent: true}}
var encStyles = []string{"", "lower", "pct20", "lower+pct20", "all"}
var relays = []string{"", strings.Repeat("r", 80), "https://sp.example/deep/" + strings.Repeat("p", 56), "relay-1", "a b&c=d", "https://sp.example/deep?x=1&y=2#frag", "ü€😀 ~*'()", "x+y/z=="}

func pick[T any](r *rand.Rand, xs []T) T { return xs[r.Intn(len(xs))] }

func authnScenarios(r *rand.Rand, n int) []*sso.Scenario {
	var out []*sso.Scenario
	add := func(f func(s *sso.Scenario)) {
		s := sso.NewScenario("conformant", len(out))
		f(s)
		out = append(out, s)
	}
	// the full grid of the discrete choices that interact: binding x signing x percent-encoding x requirement
	for _, tr := range []string{"redirect", "post"} {
		for _, sign := range []string{"", idp.RSASHA1, idp.RSASHA256} {
			for _, enc := range encStyles {
				for _, req := range []int{0, 1, 2} { // nobody requires / SP metadata requires / IdP requires
					if req > 0 && sign == "" {
						continue
					}
					if tr == "post" && enc != "" && enc != "lower" {
						continue
					}
					tr, sign, enc, req := tr, sign, enc, req
					add(func(s *sso.Scenario) {
						s.Transport, s.Sign, s.EncStyle = tr, sign, enc
						s.Relay = relays[len(out)%len(relays)]
						s.Style = styles[len(out)%len(styles)]
						s.KeyInfo = len(out)%2 == 0
						s.SigLast = len(out)%3 == 0
						switch req {
						case 1:
							s.SP = sso.BaseSP(idp.S([]string{"true", "1"}[len(out)%2]), true)
						case 2:
							s.Want = []string{"true", "1"}[len(out)%2]
						}
						if len(out)%4 == 1 && len(s.SP.Certs) > 0 {
							s.SP.Certs[0].Use = ""
						}
						s.Mut = fmt.Sprintf("grid/%s/sign=%v/enc=%s/req=%d", tr, sign != "", enc, req)
					})
				}
			}
		}
	}
	// random combinations of everything else
	for i := 0; i < n; i++ {
		add(func(s *sso.Scenario) {
			s.Transport = pick(r, []string{"redirect", "post"})
			s.Relay = pick(r, relays)
			s.Style = pick(r, styles)
			s.EncStyle = pick(r, encStyles)
			now := time.Now()
			s.Req.IssueInstant = idp.S(instant(now, r.Intn(10)))
			switch r.Intn(4) {
			case 0:
				s.Req.Destination = nil
			}
			s.Req.ProtocolBinding = pick(r, []*string{nil, idp.S(idp.RedirBinding), idp.S(idp.PostBinding)})
			s.Req.NameIDPolicy = r.Intn(3) == 0
			switch r.Intn(4) {
			case 0:
				s.Req.NotBefore = idp.S(instant(now.Add(-time.Minute), r.Intn(10)))
				s.Req.NotOnOrAfter = idp.S(instant(now.Add(5*time.Minute), r.Intn(10)))
			case 1:
				s.Req.NotOnOrAfter = idp.S(instant(now.Add(5*time.Minute), r.Intn(10)))
			case 2:
				s.Req.Conditions = true
			}
			switch r.Intn(5) {
			case 0:
				s.Req.ACSURL = idp.S("https://sp.example/acs/post")
			case 1:
				s.Req.ACSIndex = idp.S("1")
			}
			if s.Transport == "redirect" && r.Intn(3) == 0 {
				s.Encoding = idp.S(idp.Deflate)
			}
			s.Sign = pick(r, []string{"", "", idp.RSASHA1, idp.RSASHA256})
			s.KeyInfo = r.Intn(2) == 0
			s.SigLast = r.Intn(2) == 0
			withCert := s.Sign != "" || r.Intn(2) == 0
			flag := pick(r, []*string{nil, idp.S("false"), idp.S("0")})
			if s.Sign != "" {
				flag = pick(r, []*string{nil, idp.S("false"), idp.S("true"), idp.S("1")})
				s.Want = pick(r, []string{"", "false", "true", "1"})
			} else {
				s.Want = pick(r, []string{"", "false", "0"})
			}
			s.SP = sso.BaseSP(flag, withCert)
			if r.Intn(3) == 0 {
				// entity IDs are opaque, case-sensitive strings: URLs with capitals, URNs
				eid := pick(r, []string{"https://SP.Example.com/Saml2/Metadata", "urn:Example:SP:Portal", "https://sp.example/metadata/", "https://sp.example:8443/md?tenant=A"})
				s.SP.EntityID = eid
				s.Req.Issuer = idp.S(eid)
			}
			if withCert && r.Intn(3) == 0 {
				s.SP.Certs[0].Use = "" // a KeyDescriptor without a use attribute serves both signing and encryption
			}
			if s.Sign != "" && s.Transport == "post" && s.KeyInfo && r.Intn(3) == 0 {
				s.Mut = "wrap-cert" // the KeyInfo certificate text wrapped into lines (the registered one is not)
			}
			if s.Sign != "" && r.Intn(4) == 0 {
				// the registered certificate text is wrapped (as metadata generators do), the request's is not
				c := s.SP.Certs[0].Text
				var w strings.Builder
				for j := 0; j < len(c); j += 64 {
					k := j + 64
					if k > len(c) {
						k = len(c)
					}
					w.WriteString("\n" + c[j:k])
				}
				s.SP.Certs[0].Text = w.String() + "\n"
			}
		})
	}
	return out
}

func Run(dir, tier string, seed int64) error {
	r := rand.New(rand.NewSource(seed))
	n := 150
	if tier == "thorough" {
		n = 3000
	}
	scenarios := authnScenarios(r, n)
	oracle := func(e *sso.Exec) (string, string) {
		if e.Rep.Panic != "" {
			return "panic:sso", e.Rep.Panic
		}
		if e.Accepted() && e.Rep.Kind == "login-redirect" && len(e.Obs.Creates) == 1 {
			return "", ""
		}
		s := e.S
		what := fmt.Sprintf("a conformant AuthnRequest (%s binding, signed with %q, percent-encoding style %q, serialisation %+v, mutation %q) was not accepted: reply %s %d status %s", s.Transport, s.Sign, s.EncStyle, s.Style, s.Mut, e.Rep.Kind, e.Rep.Code, e.Obs.Status)
		if s.Transport == "redirect" && s.Sign != "" && s.EncStyle != "" {
			return "conformant-signed-redirect-refused:percent-encoding-style", what
		}
		return "conformant-authn-request-refused", what
	}
	extra := func(run *coqgen.Run) {
		env, err := idp.NewEnv(idp.EnvConfig{Issuer: sso.IssuerURL})
		if err != nil {
			run.Note("provider: %v", err)
			return
		}
		st := env.Storage
		st.Register("app-1", sso.BaseSP(nil, true))
		u := &idp.User{Email: "a@example.com", Username: "alice", UserID: "u1", FullName: "Alice A"}
		st.Users["u1"] = u
		st.Logins["alice"] = u
		_, _, spKey, _ := idp.Keys()
		id := 700000
		fail := func(class, what string, in interface{}) {
			run.Fail(coqgen.Failure{ID: id, Class: class, What: what, Input: in})
		}
		nl := 60
		if tier == "thorough" {
			nl = 1200
		}
		// ---- LogoutRequest
		for i := 0; i < nl; i++ {
			style := styles[i%len(styles)]
			p, a := style.P, style.A
			if p == "" {
				p = "samlp"
			}
			if a == "" {
				a = "saml"
			}
			now := time.Now()
			var sb strings.Builder
			if style.Decl {
				sb.WriteString(`<?xml version="1.0" encoding="UTF-8"?>` + "\n")
			}
			sep := ""
			if style.Indent {
				sep = "\n  "
			}
			fmt.Fprintf(&sb, `<%s:LogoutRequest xmlns:%s="urn:oasis:names:tc:SAML:2.0:protocol" xmlns:%s="urn:oasis:names:tc:SAML:2.0:assertion" ID="_lo%d" Version="2.0" IssueInstant="%s"`, p, p, a, i, instant(now, i%10))
			if i%3 == 0 {
				fmt.Fprintf(&sb, ` NotOnOrAfter="%s"`, instant(now.Add(5*time.Minute), (i/3)%10))
			}
			if i%4 == 0 {
				sb.WriteString(` Destination="https://idp.example/saml/SLO"`)
			}
			if i%5 == 0 {
				sb.WriteString(` Reason="urn:oasis:names:tc:SAML:2.0:logout:user"`)
			}
			fmt.Fprintf(&sb, `>%s<%s:Issuer>%s</%s:Issuer>%s<%s:NameID Format="urn:oasis:names:tc:SAML:1.1:nameid-format:emailAddress">a@example.com</%s:NameID>`, sep, a, sso.SPEntity, a, sep, a, a)
			if i%2 == 0 {
				fmt.Fprintf(&sb, `%s<%s:SessionIndex>_s%d</%s:SessionIndex>`, sep, p, i, p)
			}
			if style.Indent {
				sb.WriteString("\n")
			}
			fmt.Fprintf(&sb, `</%s:LogoutRequest>`, p)
			doc := sb.String()
			relay := relays[i%len(relays)]
			enc := encStyles[i%len(encStyles)]
			q := func(k, v string) idp.Param { return idp.Param{K: k, V: sso.EscapeStyle(enc, v)} }
			var spec idp.ReqSpec
			kind := ""
			switch i % 5 {
			case 0, 1:
				kind = "post"
				d := []byte(doc)
				if i%5 == 1 {
					if sd, err := idp.SignEnveloped(d, spKey, idp.RSASHA256, true, true); err == nil {
						d = sd
						kind = "post-signed"
					}
				}
				spec = idp.ReqSpec{Method: http.MethodPost, Path: "/SLO", Body: []idp.Param{q("SAMLRequest", idp.B64(d))}}
				if relay != "" {
					spec.Body = append(spec.Body, q("RelayState", relay))
				}
			case 2:
				kind = "redirect"
				spec = idp.ReqSpec{Method: http.MethodGet, Path: "/SLO", Query: []idp.Param{q("SAMLRequest", idp.DeflateB64([]byte(doc)))}}
				if relay != "" {
					spec.Query = append(spec.Query, q("RelayState", relay))
				}
			case 3:
				kind = "redirect-with-encoding-parameter"
				spec = idp.ReqSpec{Method: http.MethodGet, Path: "/SLO", Query: []idp.Param{q("SAMLRequest", idp.DeflateB64([]byte(doc))), q("SAMLEncoding", idp.Deflate)}}
			case 4:
				kind = "redirect-signed"
				msg := idp.DeflateB64([]byte(doc))
				alg := []string{idp.RSASHA1, idp.RSASHA256}[i%2]
				esc := func(v string) string { return sso.EscapeStyle(enc, v) }
				sig := idp.SignRedirect(spKey.Key, alg, idp.RedirectOctets("SAMLRequest", msg, relay, alg, esc))
				spec = idp.ReqSpec{Method: http.MethodGet, Path: "/SLO", Query: []idp.Param{q("SAMLRequest", msg)}}
				if relay != "" {
					spec.Query = append(spec.Query, q("RelayState", relay))
				}
				spec.Query = append(spec.Query, q("SigAlg", alg), q("Signature", sig))
			}
			rep := env.Do(spec.HTTP())
			run.Res.Evaluations++
			run.Count("logout=" + kind)
			run.Distinct(fmt.Sprintf("logout/%s/%d/%s", kind, i%len(styles), enc))
			if !strings.HasSuffix(rep.Status, ":Success") {
				fail("conformant-logout-request-refused", fmt.Sprintf("a conformant LogoutRequest (%s, percent-encoding %q, style %+v) was answered %s %d status %q", kind, enc, style, rep.Kind, rep.Code, rep.Status),
					map[string]interface{}{"document": doc, "request": spec, "kind": kind})
			}
			id++
		}
		// ---- AttributeQuery over SOAP
		for i := 0; i < nl; i++ {
			style := styles[i%len(styles)]
			p, a := style.P, style.A
			if p == "" {
				p = "samlp"
			}
			if a == "" {
				a = "saml"
			}
			var sb strings.Builder
			fmt.Fprintf(&sb, `<%s:AttributeQuery xmlns:%s="urn:oasis:names:tc:SAML:2.0:protocol" xmlns:%s="urn:oasis:names:tc:SAML:2.0:assertion" ID="_aq%d" Version="2.0" IssueInstant="%s"`, p, p, a, i, instant(time.Now(), i%10))
			if i%3 == 0 {
				sb.WriteString(` Destination="https://idp.example/saml/attribute"`)
			}
			fmt.Fprintf(&sb, `><%s:Issuer>%s</%s:Issuer><%s:Subject><%s:NameID Format="urn:oasis:names:tc:SAML:1.1:nameid-format:unspecified">alice</%s:NameID></%s:Subject>`, a, sso.SPEntity, a, a, a, a, a)
			if i%2 == 0 {
				fmt.Fprintf(&sb, `<%s:Attribute Name="Email" NameFormat="urn:oasis:names:tc:SAML:2.0:attrname-format:basic"/>`, a)
			}
			if i%4 == 0 {
				fmt.Fprintf(&sb, `<%s:Attribute Name="FullName" NameFormat="urn:oasis:names:tc:SAML:2.0:attrname-format:basic" FriendlyName="cn"/>`, a)
			}
			fmt.Fprintf(&sb, `</%s:AttributeQuery>`, p)
			aq := sb.String()
			signed := i%3 == 1
			if signed {
				if sd, err := idp.SignEnveloped([]byte(aq), spKey, []string{idp.RSASHA1, idp.RSASHA256}[i%2], i%2 == 0, true); err == nil {
					aq = string(sd)
				} else {
					signed = false
				}
			}
			envl := []string{`<soap:Envelope xmlns:soap="http://schemas.xmlsoap.org/soap/envelope/"><soap:Body>` + aq + `</soap:Body></soap:Envelope>`,
				`<?xml version="1.0" encoding="UTF-8"?>` + "\n" + `<SOAP-ENV:Envelope xmlns:SOAP-ENV="http://schemas.xmlsoap.org/soap/envelope/"><SOAP-ENV:Header/><SOAP-ENV:Body>` + aq + `</SOAP-ENV:Body></SOAP-ENV:Envelope>`,
				`<Envelope xmlns="http://schemas.xmlsoap.org/soap/envelope/"><Body>` + aq + `</Body></Envelope>`}[i%3]
			if signed {
				envl = `<soap:Envelope xmlns:soap="http://schemas.xmlsoap.org/soap/envelope/"><soap:Body>` + aq + `</soap:Body></soap:Envelope>`
			}
			rep := env.Do(idp.ReqSpec{Method: http.MethodPost, Path: "/attribute", RawBody: &envl, Header: map[string][]string{"Content-Type": {"text/xml; charset=utf-8"}, "SOAPAction": {`"http://www.oasis-open.org/committees/security"`}}}.HTTP())
			run.Res.Evaluations++
			run.Count(fmt.Sprintf("attribute-query/signed=%v", signed))
			run.Distinct(fmt.Sprintf("aq/%v/%d", signed, i%12))
			if !strings.HasSuffix(rep.Status, ":Success") {
				class := "conformant-attribute-query-refused"
				if signed {
					class = "conformant-signed-attribute-query-refused"
				}
				fail(class, fmt.Sprintf("a conformant AttributeQuery (signed=%v, style %+v) was answered %s %d status %q", signed, style, rep.Kind, rep.Code, rep.Status), map[string]interface{}{"body": envl})
			}
			id++
		}
	}
	rule := "AuthnRequest: the full grid binding {Redirect, POST} x signing {none, rsa-sha1, rsa-sha256} x percent-encoding style {upper-case hex with +, lower-case hex, %20 for space, both, every byte escaped} x signing required by {nobody, SP metadata (true / 1), IdP (true / 1)}, plus random combinations of 8 serialisation styles (prefixes, default namespace, XML declaration, indentation and comments, single quotes), optional parts (Destination, ProtocolBinding, consumer URL / index, NameIDPolicy, Conditions with none / one / both instants), 0-9 fractional digits, RelayState alphabets (incl. exactly 80 bytes), entity IDs with capitals / URN / port / query, SAMLEncoding present / absent, KeyInfo present / absent, signature after Issuer or last, certificate text wrapped in the request or in the registered metadata, KeyDescriptor with use=\"signing\" or without a use attribute. LogoutRequest: 8 styles x optional attributes and SessionIndex x {POST, POST signed, Redirect, Redirect with SAMLEncoding, Redirect signed} x encoding styles. AttributeQuery: 3 SOAP envelope styles x optional Destination / requested attributes x unsigned / enveloped-signed. Every one must be accepted (303 to login with exactly one persisted request; status Success); the AuthnRequests also run through the Coq SSO model. distinct = (stream / kind, style, encoding)."
	return sso.RunWith("C07", dir, tier, seed, scenarios, rule, extra, oracle)
}
