// Package coqgen renders Go values as Gallina terms and collects the output of one harness run.
package coqgen

import (
	"crypto/sha256"
	"encoding/hex"
	"encoding/json"
	"fmt"
	"os"
	"path/filepath"
	"sort"
	"strings"
)

// strings of at least InternMin bytes are emitted once, in strtab.v, and referred to by name
var (
	InternMin   = 40
	internTable = map[string]string{}
	internOrder []string
)

func Bytes(s string) string {
	if s == "" {
		return "[]"
	}
	if len(s) >= InternMin {
		if n, ok := internTable[s]; ok {
			return n
		}
		n := fmt.Sprintf("str_%d", len(internOrder))
		internTable[s] = n
		internOrder = append(internOrder, s)
		return n
	}
	return `(hx "` + hex.EncodeToString([]byte(s)) + `")`
}

// Opaque renders a value of which only emptiness matters to the model (it is passed to oracles only)
func Opaque(s string) string {
	if s == "" {
		return "[]"
	}
	h := sha256.Sum256([]byte(s))
	return `(hx "` + hex.EncodeToString(h[:6]) + `")`
}
func Bool(v bool) string {
	if v {
		return "true"
	}
	return "false"
}
func Z(n int64) string { return fmt.Sprintf("(%d)%%Z", n) }
func Nat(n int) string { return fmt.Sprintf("%d", n) }
func List(xs []string) string {
	return "[" + strings.Join(xs, "; ") + "]"
}
func BytesList(xs []string) string {
	o := make([]string, len(xs))
	for i, x := range xs {
		o[i] = Bytes(x)
	}
	return List(o)
}
func Opt(present bool, v string) string {
	if !present {
		return "None"
	}
	return "(Some " + v + ")"
}
func OptBytes(p *string) string {
	if p == nil {
		return "None"
	}
	return "(Some " + Bytes(*p) + ")"
}

// Failure is one input on which an independent oracle says the property fails on the implementation.
type Failure struct {
	ID    int         `json:"id"`
	Class string      `json:"class"`           // decidable class of the failure (matched against known_findings.json)
	Known string      `json:"known,omitempty"` // id of the known finding whose class it falls in, if any
	What  string      `json:"what"`
	Input interface{} `json:"input"`
}

// Result is what a harness run reports to bin/check.
type Result struct {
	Property           string         `json:"property"`
	Tier               string         `json:"tier"`
	Seed               int64          `json:"seed"`
	Evaluations        int            `json:"evaluations"`
	DistinctNontrivial int            `json:"distinct_nontrivial"`
	Rule               string         `json:"rule"`
	Samples            []interface{}  `json:"samples"`
	Distribution       map[string]int `json:"distribution"`
	CoqCases           int            `json:"coq_cases"`
	Exhaustive         bool           `json:"exhaustive"`
	OracleFailures     []Failure      `json:"oracle_failures"`
	Notes              []string       `json:"notes,omitempty"`
}

// Run accumulates cases for Coq and the result.
type Run struct {
	Dir      string
	Prop     string
	Imports  string // Coq Require line(s) for the shards
	CaseType string // Coq type of one case
	BadFn    string // Coq function: list case -> list nat (ids of mismatching cases)
	PerShard int
	Res      Result
	cases    []string
	index    []string
	distinct map[string]bool
}

func NewRun(dir, prop, tier string, seed int64) *Run {
	os.MkdirAll(dir, 0o755)
	return &Run{Dir: dir, Prop: prop, PerShard: 400, distinct: map[string]bool{},
		Res: Result{Property: prop, Tier: tier, Seed: seed, Distribution: map[string]int{}, OracleFailures: []Failure{}, Samples: []interface{}{}}}
}

// AddCase registers a case for evaluation inside Coq; desc is kept for replay files.
func (r *Run) AddCase(id int, coqTerm string, desc interface{}) {
	r.cases = append(r.cases, coqTerm)
	d, _ := json.Marshal(map[string]interface{}{"id": id, "case": desc})
	r.index = append(r.index, string(d))
}

func (r *Run) Count(key string)    { r.Res.Distribution[key]++ }
func (r *Run) Distinct(key string) { r.distinct[key] = true }
func (r *Run) Sample(v interface{}) {
	if len(r.Res.Samples) < 5 {
		r.Res.Samples = append(r.Res.Samples, v)
	}
}
func (r *Run) Fail(f Failure) {
	if len(r.Res.OracleFailures) < 200 {
		r.Res.OracleFailures = append(r.Res.OracleFailures, f)
	}
}
func (r *Run) Note(f string, a ...interface{}) {
	r.Res.Notes = append(r.Res.Notes, fmt.Sprintf(f, a...))
}

// Finish writes the shards, the case index and result.json.
func (r *Run) Finish() error {
	r.Res.DistinctNontrivial = len(r.distinct)
	r.Res.CoqCases = len(r.cases)
	n := 0
	for i := 0; i < len(r.cases); i += r.PerShard {
		j := i + r.PerShard
		if j > len(r.cases) {
			j = len(r.cases)
		}
		var sb strings.Builder
		sb.WriteString(r.Imports + "\n")
		if len(internOrder) > 0 {
			sb.WriteString("From Run Require Import strtab.\n")
		}
		fmt.Fprintf(&sb, "Definition cases : list %s := [\n", r.CaseType)
		sb.WriteString(strings.Join(r.cases[i:j], ";\n"))
		sb.WriteString("\n].\n")
		fmt.Fprintf(&sb, "Definition result := Eval vm_compute in %s cases.\nPrint result.\n", r.BadFn)
		name := fmt.Sprintf("cases_%s_%03d.v", r.Prop, n)
		if err := os.WriteFile(filepath.Join(r.Dir, name), []byte(sb.String()), 0o644); err != nil {
			return err
		}
		n++
	}
	if len(internOrder) > 0 {
		var tb strings.Builder
		tb.WriteString("From Saml Require Import Base.Bytes Base.Pack.\nFrom Coq Require Import Uint63.\n")
		for i, v := range internOrder {
			// 7 bytes per primitive integer, 250 integers per piece; left unevaluated (the VM unpacks them when a case runs):
			// string literals cost ~100 us per character to parse and long evaluated lists overflow Coq's stack
			var parts []string
			for off := 0; off < len(v); off += 1750 {
				end := off + 1750
				if end > len(v) {
					end = len(v)
				}
				var ints []string
				for j := off; j < end; j += 7 {
					var chunk [7]byte
					copy(chunk[:], v[j:min(j+7, end)])
					ints = append(ints, "0x"+hex.EncodeToString(chunk[:]))
				}
				parts = append(parts, fmt.Sprintf("pk %d [%s]%%uint63", end-off, strings.Join(ints, "; ")))
			}
			if len(parts) == 1 {
				fmt.Fprintf(&tb, "Definition str_%d : bytes := %s.\n", i, parts[0])
			} else {
				fmt.Fprintf(&tb, "Definition str_%d : bytes := bconcat [%s].\n", i, strings.Join(parts, "; "))
			}
		}
		if err := os.WriteFile(filepath.Join(r.Dir, "strtab.v"), []byte(tb.String()), 0o644); err != nil {
			return err
		}
	}
	if err := os.WriteFile(filepath.Join(r.Dir, "cases.jsonl"), []byte(strings.Join(r.index, "\n")+"\n"), 0o644); err != nil {
		return err
	}
	keys := make([]string, 0, len(r.Res.Distribution))
	for k := range r.Res.Distribution {
		keys = append(keys, k)
	}
	sort.Strings(keys)
	out, _ := json.MarshalIndent(r.Res, "", " ")
	return os.WriteFile(filepath.Join(r.Dir, "result.json"), out, 0o644)
}
