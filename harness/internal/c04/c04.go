// Package c04: every signed artefact the IdP emits is verified with an independent implementation (goxmldsig for enveloped
// signatures, the SAML HTTP-Redirect procedure re-implemented here on the raw query of the URL sent). The signer's and
// the verifier's digest inputs of each signed element go to the Coq model (Xml/C14N.v), tied to the real signer through
// the DigestValue it emitted.
package c04

import (
	"crypto"
	"crypto/rsa"
	"crypto/sha1"
	"crypto/sha256"
	"crypto/x509"
	"encoding/base64"
	"fmt"
	"net/http"
	"net/url"
	"sort"
	"strings"

	"github.com/beevik/etree"
	dsig "github.com/russellhaering/goxmldsig"
	"github.com/zitadel/saml/pkg/provider"
	"github.com/zitadel/saml/pkg/provider/key"

	"verif/harness/internal/coqgen"
	"verif/harness/internal/idp"
	"verif/harness/internal/sso"
)

type node struct {
	name  string
	ns    *string
	attrs [][2]string
	kids  []*node
	text  string
}

// treeOf converts an element (without its Signature child) to the model's tree
func treeOf(e *etree.Element, top bool) (*node, error) {
	if e.Space != "" {
		return nil, fmt.Errorf("prefixed element %s:%s", e.Space, e.Tag)
	}
	n := &node{name: e.Tag}
	for _, a := range e.Attr {
		switch {
		case a.Space == "" && a.Key == "xmlns":
			v := a.Value
			n.ns = &v
		case a.Space != "":
			return nil, fmt.Errorf("prefixed attribute %s:%s", a.Space, a.Key)
		default:
			n.attrs = append(n.attrs, [2]string{a.Key, a.Value})
		}
	}
	for _, c := range e.Child {
		switch x := c.(type) {
		case *etree.Element:
			if top && x.Tag == "Signature" {
				continue
			}
			k, err := treeOf(x, false)
			if err != nil {
				return nil, err
			}
			n.kids = append(n.kids, k)
		case *etree.CharData:
			n.text += x.Data
		}
	}
	if len(n.kids) > 0 && strings.TrimSpace(n.text) != "" {
		return nil, fmt.Errorf("mixed content in %s", n.name)
	}
	if len(n.kids) > 0 {
		n.text = ""
	}
	return n, nil
}

func (n *node) coq() string {
	ns := "None"
	if n.ns != nil {
		ns = "(Some " + coqgen.Bytes(*n.ns) + ")"
	}
	var as []string
	for _, a := range n.attrs {
		as = append(as, "("+coqgen.Bytes(a[0])+", "+coqgen.Bytes(a[1])+")")
	}
	content := "(Text " + coqgen.Bytes(n.text) + ")"
	if len(n.kids) > 0 {
		var ks []string
		for _, k := range n.kids {
			ks = append(ks, k.coq())
		}
		content = "(Kids " + coqgen.List(ks) + ")"
	}
	return "(El " + coqgen.Bytes(n.name) + " " + ns + " " + coqgen.List(as) + " " + content + ")"
}

// signerCanon: a Go port of the Coq model's signer_canon (Coq checks that the two agree; the hash of this text is compared
// with the DigestValue the real signer emitted)
func (n *node) signerCanon(parent *string, sb *strings.Builder) {
	sb.WriteString("<" + n.name)
	here := parent
	if n.ns != nil {
		if parent == nil || *parent != *n.ns {
			sb.WriteString(` xmlns="` + *n.ns + `"`)
		}
		here = n.ns
	}
	as := append([][2]string(nil), n.attrs...)
	sort.SliceStable(as, func(i, j int) bool { return as[i][0] < as[j][0] })
	for _, a := range as {
		sb.WriteString(" " + a[0] + `="` + a[1] + `"`)
	}
	sb.WriteString(">")
	if len(n.kids) == 0 {
		sb.WriteString(n.text)
	}
	for _, k := range n.kids {
		k.signerCanon(here, sb)
	}
	sb.WriteString("</" + n.name + ">")
}

func (n *node) dataPlain() bool {
	for _, a := range n.attrs {
		if strings.ContainsAny(a[1], "&<\"\t\n\r") {
			return false
		}
	}
	if len(n.kids) == 0 && strings.ContainsAny(n.text, "&<>\r") {
		return false
	}
	for _, k := range n.kids {
		if !k.dataPlain() {
			return false
		}
	}
	return true
}

var hostile = []string{"plain", "a&b", "a<b", "a>b", "quote\"d", "apos'd", "cr\rhere", "lf\nhere", "tab\there", "crlf\r\nx", " leading", "trailing ", "ü€", "\U0001F600\U00010000", "https://sp.example/md?a=1&b=2", "&amp;", "]]>", "a  b"}

func digestOf(alg string, data []byte) string {
	if strings.HasSuffix(alg, "sha1") {
		s := sha1.Sum(data)
		return base64.StdEncoding.EncodeToString(s[:])
	}
	s := sha256.Sum256(data)
	return base64.StdEncoding.EncodeToString(s[:])
}

func Run(dir, tier string, seed int64) error {
	run := coqgen.NewRun(dir, "C04", tier, seed)
	run.Imports = "From Saml Require Import Base.Bytes Xml.Tree Corr.C04Corr."
	run.CaseType = "c04case"
	run.BadFn = "c04_bad"
	run.PerShard = 40
	id := 0
	fail := func(class, what string, in interface{}) {
		run.Fail(coqgen.Failure{ID: id, Class: class, What: what, Input: in})
	}
	// checkEnveloped validates the enveloped signature of the named element of doc with an independent verifier, and emits
	// the digest-input case
	checkEnveloped := func(what string, doc []byte, tag string, cert *x509.Certificate, desc map[string]interface{}) {
		run.Res.Evaluations++
		run.Count("enveloped=" + what)
		d := etree.NewDocument()
		if err := d.ReadFromBytes(doc); err != nil {
			fail("artefact-not-parsable", what+": "+err.Error(), desc)
			id++
			return
		}
		var el *etree.Element
		if d.Root().Tag == tag {
			el = d.Root()
		} else {
			el = d.FindElement("//" + tag)
		}
		if el == nil {
			fail("signed-element-missing", what+": no "+tag, desc)
			id++
			return
		}
		sigEl := el.SelectElement("Signature")
		if sigEl == nil {
			fail("artefact-unsigned", fmt.Sprintf("%s: the %s element carries no Signature", what, tag), desc)
			id++
			return
		}
		// a stand-alone copy (Go's marshaller declares every namespace on the element that uses it)
		alone := etree.NewDocument()
		alone.SetRoot(el.Copy())
		root := alone.Root()
		tree, terr := treeOf(root, true)
		plain := terr == nil && tree.dataPlain()
		// independent verifier
		ctx := dsig.NewDefaultValidationContext(&dsig.MemoryX509CertificateStore{Roots: []*x509.Certificate{cert}})
		ctx.IdAttribute = "ID"
		_, verr := ctx.Validate(root.Copy())
		if verr != nil {
			class := "enveloped-signature-invalid"
			if terr != nil {
				class = "enveloped-signature-invalid:document-outside-the-modelled-class" // e.g. a prefixed attribute the signer cannot handle
			} else if !plain {
				class = "enveloped-signature-invalid:value-needs-c14n-escaping"
			}
			desc["document"] = string(doc)
			fail(class, fmt.Sprintf("%s: goxmldsig rejects the %s signature: %v", what, tag, verr), desc)
		}
		run.Distinct(fmt.Sprintf("%s/plain=%v/valid=%v", what, plain, verr == nil))
		if terr != nil {
			run.Note("%s: element outside the modelled document class: %v", what, terr)
			id++
			return
		}
		var sb strings.Builder
		tree.signerCanon(nil, &sb)
		alg := ""
		if dm := sigEl.FindElement("./SignedInfo/Reference/DigestMethod"); dm != nil {
			alg = dm.SelectAttrValue("Algorithm", "")
		}
		dv := ""
		if x := sigEl.FindElement("./SignedInfo/Reference/DigestValue"); x != nil {
			dv = strings.TrimSpace(x.Text())
		}
		if got := digestOf(alg, []byte(sb.String())); got != dv {
			desc["document"] = string(doc)
			fail("signer-digest-input-differs-from-model", fmt.Sprintf("%s: the emitted DigestValue %s is not the hash of the modelled signer digest input (%s)", what, dv, got), desc)
		}
		// the verifier's digest input according to goxmldsig's canonicaliser
		vcopy := root.Copy()
		if s := vcopy.SelectElement("Signature"); s != nil {
			vcopy.RemoveChild(s)
		}
		vb, cerr := dsig.MakeC14N10ExclusiveCanonicalizerWithPrefixList("").Canonicalize(vcopy)
		if cerr != nil {
			run.Note("%s: goxmldsig canonicaliser: %v", what, cerr)
			id++
			return
		}
		run.AddCase(id, fmt.Sprintf("KCanon %s %s %s %s", coqgen.Z(int64(id)), tree.coq(), coqgen.Bytes(sb.String()), coqgen.Bytes(string(vb))), desc)
		id++
	}

	for ai, alg := range []string{idp.RSASHA256, idp.RSASHA1} {
		for hi, h := range hostile {
			if tier != "thorough" && ai == 1 && hi%3 != 0 {
				continue
			}
			conf := idp.DefaultConf()
			conf.IDPConfig.SignatureAlgorithm = alg
			conf.MetadataConfig = &provider.MetadataConfig{SignatureAlgorithm: alg}
			conf.Organisation = &provider.Organisation{Name: h + "#on", DisplayName: h + "#od", URL: h + "#ou"}
			conf.ContactPerson = &provider.ContactPerson{ContactType: "technical", Company: h + "#cc", GivenName: h, SurName: h, EmailAddress: h + "#ce", TelephoneNumber: h}
			env, err := idp.NewEnv(idp.EnvConfig{Issuer: sso.IssuerURL, Conf: conf})
			if err != nil {
				return err
			}
			st := env.Storage
			spm := sso.BaseSP(nil, true)
			spm.EntityID = fmt.Sprintf("https://sp%d.example/md/%s", hi, h)
			if _, err := st.Register("app-1", spm); err != nil {
				run.Note("register %q: %v", spm.EntityID, err)
				continue
			}
			st.Apps["app-1"] = spm.EntityID
			u := &idp.User{Email: h + "#mail", FullName: h + "#full", GivenName: h, Surname: h, Username: h + "#user", UserID: h + "#uid",
				Custom: []idp.CustomAttr{{Name: h + "#cname", Friendly: h + "#cf", Format: h + "#fmt", Values: []string{h + "#v1", h}}}}
			st.Users["u1"] = u
			st.Logins["alice"] = u
			respCert, _ := x509.ParseCertificate(st.RespKey.Certificate)
			metaCert, _ := x509.ParseCertificate(st.MetaKey.Certificate)
			desc := func() map[string]interface{} { return map[string]interface{}{"value": h, "algorithm": alg} }

			// ---- POST binding
			st.Requests["r1"] = &idp.AuthReq{ID: "r1", AppID: "app-1", RelayState: h, ACS: "https://sp.example/acs?" + h, Binding: idp.PostBinding, AuthReqID: h + "#req", UserID: "u1", IsDone: true}
			if rep := env.Do(idp.ReqSpec{Method: http.MethodGet, Path: "/login", Query: []idp.Param{idp.Q("id", "r1")}}.HTTP()); rep.Msg != nil && strings.HasSuffix(rep.Status, ":Success") {
				checkEnveloped("post-response", rep.Msg, "Assertion", respCert, desc())
			} else {
				run.Count("no-success:post")
			}
			// ---- a user record with nothing but a login name (empty attribute statement)
			st.Users["u0"] = &idp.User{Username: h + "#bare"}
			st.Requests["r0"] = &idp.AuthReq{ID: "r0", AppID: "app-1", RelayState: h, ACS: "https://sp.example/acs", Binding: idp.PostBinding, AuthReqID: h + "#req", UserID: "u0", IsDone: true}
			if rep := env.Do(idp.ReqSpec{Method: http.MethodGet, Path: "/login", Query: []idp.Param{idp.Q("id", "r0")}}.HTTP()); rep.Msg != nil && strings.HasSuffix(rep.Status, ":Success") {
				checkEnveloped("post-response-no-attributes", rep.Msg, "Assertion", respCert, desc())
			}
			// ---- attribute query: everything / one attribute the user has / only an attribute the user has not
			for qi, requested := range []string{"", `<saml:Attribute Name="Email" NameFormat="urn:oasis:names:tc:SAML:2.0:attrname-format:basic"/>`, `<saml:Attribute Name="NoSuchAttribute" NameFormat="urn:oasis:names:tc:SAML:2.0:attrname-format:basic"/>`} {
				aq := `<soap:Envelope xmlns:soap="http://schemas.xmlsoap.org/soap/envelope/"><soap:Body><samlp:AttributeQuery xmlns:samlp="urn:oasis:names:tc:SAML:2.0:protocol" xmlns:saml="urn:oasis:names:tc:SAML:2.0:assertion" ID="` + idp.EscAttr(h+"#aq") + `" Version="2.0" IssueInstant="2024-01-01T00:00:00Z"><saml:Issuer>` + idp.EscAttr(spm.EntityID) + `</saml:Issuer><saml:Subject><saml:NameID>alice</saml:NameID></saml:Subject>` + requested + `</samlp:AttributeQuery></soap:Body></soap:Envelope>`
				if rep := env.Do(idp.ReqSpec{Method: http.MethodPost, Path: "/attribute", RawBody: &aq}.HTTP()); rep.Msg != nil && strings.HasSuffix(rep.Status, ":Success") {
					checkEnveloped([]string{"attribute-response", "attribute-response-one", "attribute-response-none-matching"}[qi], rep.Msg, "Assertion", respCert, desc())
				} else {
					run.Count("no-success:attribute-query")
				}
			}
			// ---- signed metadata
			if rep := env.Do(idp.ReqSpec{Method: http.MethodGet, Path: "/metadata"}.HTTP()); rep.Code == 200 {
				checkEnveloped("metadata", rep.Body, "EntityDescriptor", metaCert, desc())
			}
			// ---- Redirect binding: the SAML HTTP-Redirect verification procedure on the URL actually sent
			acsShapes := []string{"https://sp.example/acs/redirect", "https://sp.example/acs?x=1"}
			if hi < 3 {
				// consumer URLs whose own query uses the names of the signed parameters, with and without a RelayState of the message
				acsShapes = append(acsShapes, "https://sp.example/acs?RelayState=from-the-consumer-url", "https://sp.example/acs?a=1&SigAlg=x&b=2")
			}
			for ci, acs := range acsShapes {
				relay := h
				if ci == 2 && hi%2 == 0 {
					relay = ""
				}
				st.Requests["r2"] = &idp.AuthReq{ID: "r2", AppID: "app-1", RelayState: relay, ACS: acs, Binding: idp.RedirBinding, AuthReqID: h + "#req", UserID: "u1", IsDone: true}
				rep := env.Do(idp.ReqSpec{Method: http.MethodGet, Path: "/login", Query: []idp.Param{idp.Q("id", "r2")}}.HTTP())
				run.Res.Evaluations++
				run.Count("redirect")
				if rep.Kind != "saml-redirect" {
					run.Count("no-redirect:" + rep.Kind)
					continue
				}
				loc := rep.Location
				q := loc[len(acs)+1:]
				// a verifier sees the query of the whole URL (everything after the first '?'), first occurrence of each name
				whole := loc[strings.IndexByte(loc, '?')+1:]
				raw := map[string]string{}
				for _, seg := range strings.Split(whole, "&") {
					if k, v, ok := strings.Cut(seg, "="); ok {
						if _, dup := raw[k]; !dup {
							raw[k] = v
						}
					}
				}
				d := desc()
				d["location"] = loc
				octets := "SAMLResponse=" + raw["SAMLResponse"]
				if v, ok := raw["RelayState"]; ok {
					octets += "&RelayState=" + v
				}
				octets += "&SigAlg=" + raw["SigAlg"]
				sigAlg, _ := url.QueryUnescape(raw["SigAlg"])
				sigB64, _ := url.QueryUnescape(raw["Signature"])
				sig, berr := base64.StdEncoding.DecodeString(sigB64)
				var verr error = berr
				if berr == nil {
					pub := respCert.PublicKey.(*rsa.PublicKey)
					switch sigAlg {
					case idp.RSASHA1:
						s := sha1.Sum([]byte(octets))
						verr = rsa.VerifyPKCS1v15(pub, crypto.SHA1, s[:], sig)
					case idp.RSASHA256:
						s := sha256.Sum256([]byte(octets))
						verr = rsa.VerifyPKCS1v15(pub, crypto.SHA256, s[:], sig)
					default:
						verr = fmt.Errorf("SigAlg %q in the URL is not the configured algorithm", sigAlg)
					}
				}
				if _, has := raw["Signature"]; !has {
					fail("redirect-response-unsigned", "the redirect URL of a Success response carries no Signature parameter", d)
				} else if (verr != nil || sigAlg != alg) && ci >= 2 {
					fail("redirect-signature-invalid:consumer-url-query-names-signed-parameter", fmt.Sprintf("the consumer URL's own query contains a parameter named like one of the signed ones; a verifier reading the whole query of the URL sent takes that value (first occurrence): %v", verr), d)
				} else if verr != nil || sigAlg != alg {
					fail("redirect-signature-invalid", fmt.Sprintf("the signature does not verify over the octets SAML Bindings 3.4.4.1 prescribes for the URL sent: %v", verr), d)
				}
				// the model is compared on the part the IdP appended (its own parameters)
				built := map[string]string{}
				for _, seg := range strings.Split(q, "&") {
					if k, v, ok := strings.Cut(seg, "="); ok {
						if _, dup := built[k]; !dup {
							built[k] = v
						}
					}
				}
				resp, _ := url.QueryUnescape(built["SAMLResponse"])
				bAlg, _ := url.QueryUnescape(built["SigAlg"])
				bSig, _ := url.QueryUnescape(built["Signature"])
				run.AddCase(id, fmt.Sprintf("KRedirect %s %s %s %s %s %s", coqgen.Z(int64(id)), coqgen.Bytes(resp), coqgen.Bytes(relay), coqgen.Bytes(bAlg), coqgen.Bytes(bSig), coqgen.Bytes(q)), d)
				run.Distinct(fmt.Sprintf("redirect/%d/%v", hi, verr == nil))
				id++
			}
			// ---- no Success assertion leaves unsigned: every binding x consumer URL shape
			if ai == 0 && hi < 4 {
				for _, binding := range []string{idp.PostBinding, idp.RedirBinding} {
					for _, acs := range []string{"https://sp.example/acs", ""} {
						st.Requests["r3"] = &idp.AuthReq{ID: "r3", AppID: "app-1", RelayState: "rs", ACS: acs, Binding: binding, AuthReqID: "_r", UserID: "u1", IsDone: true}
						rep := env.Do(idp.ReqSpec{Method: http.MethodGet, Path: "/login", Query: []idp.Param{idp.Q("id", "r3")}}.HTTP())
						run.Res.Evaluations++
						run.Count("unsigned-probe=" + rep.Kind)
						if rep.Msg == nil || !strings.HasSuffix(rep.Status, ":Success") {
							continue
						}
						d := map[string]interface{}{"binding": binding, "acs": acs, "reply": rep.Kind}
						signed := false
						switch rep.Kind {
						case "saml-redirect":
							signed = rep.Q["Signature"] != "" && rep.Q["SigAlg"] != ""
						default:
							doc := etree.NewDocument()
							if doc.ReadFromBytes(rep.Msg) == nil {
								if a := doc.FindElement("//Assertion"); a != nil && a.SelectElement("Signature") != nil {
									signed = true
								}
							}
						}
						if !signed {
							class := "success-assertion-unsigned"
							if rep.Kind == "saml-body" && binding == idp.RedirBinding && acs == "" {
								class = "success-assertion-unsigned:redirect-binding-empty-consumer-url"
							}
							fail(class, fmt.Sprintf("a Success assertion left the IdP without a signature covering it (stored binding %q, consumer URL %q, delivered as %s)", binding, acs, rep.Kind), d)
						}
						id++
					}
				}
			}
		}
	}
	// ---- what the SP says about itself must not switch signing off: WantAssertionsSigned / AuthnRequestsSigned in every spelling
	{
		env, err := idp.NewEnv(idp.EnvConfig{Issuer: sso.IssuerURL})
		if err != nil {
			return err
		}
		st := env.Storage
		u := &idp.User{Email: "a@example.com", Username: "alice", UserID: "u1"}
		st.Users["u1"] = u
		st.Logins["alice"] = u
		respCert, _ := x509.ParseCertificate(st.RespKey.Certificate)
		for _, was := range []*string{nil, idp.S("true"), idp.S("false"), idp.S("1"), idp.S("0"), idp.S("")} {
			st.ClearSPs()
			m := sso.BaseSP(nil, true)
			m.WantAssertionsSigned = was
			if _, err := st.Register("app-1", m); err != nil {
				continue
			}
			st.Apps["app-1"] = sso.SPEntity
			d := func() map[string]interface{} { return map[string]interface{}{"WantAssertionsSigned": was} }
			unsigned := func(what string, doc []byte) bool {
				x := etree.NewDocument()
				if x.ReadFromBytes(doc) != nil {
					return false
				}
				if a := x.FindElement("//Assertion"); a == nil || a.SelectElement("Signature") == nil {
					fail("success-assertion-unsigned", fmt.Sprintf("%s: a Success assertion left the IdP without a signature (SP metadata WantAssertionsSigned=%v)", what, was), d())
					id++
					return true
				}
				return false
			}
			st.Requests["w1"] = &idp.AuthReq{ID: "w1", AppID: "app-1", RelayState: "rs", ACS: "https://sp.example/acs/post", Binding: idp.PostBinding, AuthReqID: "_r", UserID: "u1", IsDone: true}
			if rep := env.Do(idp.ReqSpec{Method: http.MethodGet, Path: "/login", Query: []idp.Param{idp.Q("id", "w1")}}.HTTP()); rep.Msg != nil && strings.HasSuffix(rep.Status, ":Success") {
				if !unsigned("post-response", rep.Msg) {
					checkEnveloped("post-response-sp-flags", rep.Msg, "Assertion", respCert, d())
				}
			}
			aq := `<soap:Envelope xmlns:soap="http://schemas.xmlsoap.org/soap/envelope/"><soap:Body><samlp:AttributeQuery xmlns:samlp="urn:oasis:names:tc:SAML:2.0:protocol" xmlns:saml="urn:oasis:names:tc:SAML:2.0:assertion" ID="_aqw" Version="2.0" IssueInstant="2024-01-01T00:00:00Z"><saml:Issuer>` + sso.SPEntity + `</saml:Issuer><saml:Subject><saml:NameID>alice</saml:NameID></saml:Subject></samlp:AttributeQuery></soap:Body></soap:Envelope>`
			if rep := env.Do(idp.ReqSpec{Method: http.MethodPost, Path: "/attribute", RawBody: &aq}.HTTP()); rep.Msg != nil && strings.HasSuffix(rep.Status, ":Success") {
				if !unsigned("attribute-response", rep.Msg) {
					checkEnveloped("attribute-response-sp-flags", rep.Msg, "Assertion", respCert, d())
				}
			}
		}
	}
	// ---- large, poorly compressible responses (long redirect URLs, big forms): still signed, still verifying
	{
		for _, alg := range []string{idp.RSASHA256, idp.RSASHA1} {
			conf := idp.DefaultConf()
			conf.IDPConfig.SignatureAlgorithm = alg
			env, err := idp.NewEnv(idp.EnvConfig{Issuer: sso.IssuerURL, Conf: conf})
			if err != nil {
				return err
			}
			st := env.Storage
			st.Register("app-1", sso.BaseSP(nil, true))
			st.Apps["app-1"] = sso.SPEntity
			respCert, _ := x509.ParseCertificate(st.RespKey.Certificate)
			for _, size := range []int{2048, 16384, 65536} {
				raw := make([]byte, size/2)
				rng := uint32(size)
				for i := range raw {
					rng = rng*1664525 + 1013904223
					raw[i] = byte(rng >> 24)
				}
				big := fmt.Sprintf("%x", raw)
				st.Users["ubig"] = &idp.User{Email: "a@example.com", Username: "alice", UserID: "ubig", Custom: []idp.CustomAttr{{Name: "blob", Values: []string{big}}}}
				for _, binding := range []string{idp.PostBinding, idp.RedirBinding} {
					st.Requests["big"] = &idp.AuthReq{ID: "big", AppID: "app-1", RelayState: "rs", ACS: "https://sp.example/acs", Binding: binding, AuthReqID: "_r", UserID: "ubig", IsDone: true}
					rep := env.Do(idp.ReqSpec{Method: http.MethodGet, Path: "/login", Query: []idp.Param{idp.Q("id", "big")}}.HTTP())
					run.Res.Evaluations++
					run.Count(fmt.Sprintf("large-response=%s/%d", rep.Kind, size))
					d := map[string]interface{}{"attribute_bytes": size, "binding": binding, "algorithm": alg, "reply": rep.Kind}
					if !strings.HasSuffix(rep.Status, ":Success") || rep.Msg == nil {
						continue
					}
					switch rep.Kind {
					case "saml-redirect":
						if msg := verifyRedirect(rep.Location, "https://sp.example/acs", respCert, alg); msg != "" {
							fail("redirect-signature-invalid", fmt.Sprintf("large response (%d attribute bytes): %s", size, msg), d)
						}
						id++
					default:
						doc := etree.NewDocument()
						signed := false
						if doc.ReadFromBytes(rep.Msg) == nil {
							if a := doc.FindElement("//Assertion"); a != nil && a.SelectElement("Signature") != nil {
								signed = true
							}
						}
						if !signed {
							fail("success-assertion-unsigned", fmt.Sprintf("a Success assertion with %d attribute bytes left the IdP without a signature (stored binding %s, delivered as %s)", size, binding, rep.Kind), d)
							id++
						} else if size <= 16384 {
							checkEnveloped("post-response-large", rep.Msg, "Assertion", respCert, d)
						} else {
							id++
						}
					}
				}
			}
		}
	}
	// ---- a storage that hands out a certificate and a key that do not belong together (e.g. a half-finished rotation): whatever
	// is emitted with a signature must still verify under the certificate the IdP publishes -- or nothing signed is emitted
	{
		conf := idp.DefaultConf()
		conf.MetadataConfig = &provider.MetadataConfig{SignatureAlgorithm: idp.RSASHA256}
		env, err := idp.NewEnv(idp.EnvConfig{Issuer: sso.IssuerURL, Conf: conf})
		if err != nil {
			return err
		}
		st := env.Storage
		_, _, _, other := idp.Keys()
		st.RespKey = &key.CertificateAndKey{Certificate: st.RespKey.Certificate, Key: other.Key}
		st.MetaKey = &key.CertificateAndKey{Certificate: st.MetaKey.Certificate, Key: other.Key}
		st.Register("app-1", sso.BaseSP(nil, true))
		st.Apps["app-1"] = sso.SPEntity
		u := &idp.User{Email: "a@example.com", Username: "alice", UserID: "u1"}
		st.Users["u1"] = u
		st.Logins["alice"] = u
		respCert, _ := x509.ParseCertificate(st.RespKey.Certificate)
		metaCert, _ := x509.ParseCertificate(st.MetaKey.Certificate)
		d := func() map[string]interface{} {
			return map[string]interface{}{"storage": "certificate and key of different pairs"}
		}
		for _, binding := range []string{idp.PostBinding, idp.RedirBinding} {
			st.Requests["m1"] = &idp.AuthReq{ID: "m1", AppID: "app-1", RelayState: "rs", ACS: "https://sp.example/acs", Binding: binding, AuthReqID: "_r", UserID: "u1", IsDone: true}
			rep := env.Do(idp.ReqSpec{Method: http.MethodGet, Path: "/login", Query: []idp.Param{idp.Q("id", "m1")}}.HTTP())
			run.Res.Evaluations++
			run.Count("mismatched-pair=" + rep.Kind)
			if !strings.HasSuffix(rep.Status, ":Success") {
				continue
			}
			if rep.Kind == "saml-redirect" {
				fail("signed-with-a-key-not-matching-the-published-certificate", "a Success response was sent over the Redirect binding although the signing key does not belong to the published certificate", d())
				id++
			} else if rep.Msg != nil {
				checkEnveloped("post-response-mismatched-pair", rep.Msg, "Assertion", respCert, d())
			}
		}
		if rep := env.Do(idp.ReqSpec{Method: http.MethodGet, Path: "/metadata"}.HTTP()); rep.Code == 200 && rep.Doc != nil {
			checkEnveloped("metadata-mismatched-pair", rep.Body, "EntityDescriptor", metaCert, d())
		}
	}
	run.Res.Rule = "18 values (each character Canonical XML escapes: & < > CR in text, & < double-quote TAB LF CR in attribute values; apostrophe, leading / trailing / double space, multi-byte and supplementary-plane code points, entity look-alikes, CDATA terminator, a URL with & in its query) placed in every string that reaches a signed artefact (user attributes and custom attribute names / formats / values, NameID, audience = SP entity ID, recipient = consumer URL, request ID, RelayState, organisation and contact data) x {rsa-sha256, rsa-sha1} x artefacts {POST-binding response assertion (full user record; record with a login name only), attribute-query response assertion (all attributes / one requested / none matching), signed metadata, Redirect-binding query signature for consumer URLs with and without a query}: each enveloped signature is validated with goxmldsig and the published certificate; the signed element (without its Signature) goes to Coq as a tree together with the signer's digest input (whose hash must equal the emitted DigestValue) and goxmldsig's exclusive canonical form; each redirect URL is verified by the SAML Bindings 3.4.4.1 procedure on its raw query and compared with the generated BuildRedirectQuery; stored binding {POST, Redirect} x consumer URL {set, empty} are probed for a Success assertion without signature; SP metadata with WantAssertionsSigned absent / true / false / 1 / 0 / empty must not switch signing off; responses carrying 2 / 16 / 64 kB of incompressible attribute data over both bindings must still be signed and verify; a storage handing out a certificate and a key of different pairs must not lead to an artefact whose signature fails under the published certificate. distinct = (artefact, value class, verdict)."
	return run.Finish()
}

// verifyRedirect applies SAML Bindings 3.4.4.1 to the URL sent: the octets are rebuilt from the raw query values
func verifyRedirect(loc, acs string, cert *x509.Certificate, alg string) string {
	if len(loc) <= len(acs)+1 {
		return "no query in the Location"
	}
	raw := map[string]string{}
	for _, seg := range strings.Split(loc[len(acs)+1:], "&") {
		if k, v, ok := strings.Cut(seg, "="); ok {
			if _, dup := raw[k]; !dup {
				raw[k] = v
			}
		}
	}
	if _, has := raw["Signature"]; !has {
		return "no Signature parameter"
	}
	octets := "SAMLResponse=" + raw["SAMLResponse"]
	if v, ok := raw["RelayState"]; ok {
		octets += "&RelayState=" + v
	}
	octets += "&SigAlg=" + raw["SigAlg"]
	sigAlg, _ := url.QueryUnescape(raw["SigAlg"])
	sigB64, _ := url.QueryUnescape(raw["Signature"])
	sig, err := base64.StdEncoding.DecodeString(sigB64)
	if err != nil {
		return "Signature is not base64"
	}
	if sigAlg != alg {
		return fmt.Sprintf("SigAlg %q is not the configured %q", sigAlg, alg)
	}
	pub := cert.PublicKey.(*rsa.PublicKey)
	if sigAlg == idp.RSASHA1 {
		h := sha1.Sum([]byte(octets))
		err = rsa.VerifyPKCS1v15(pub, crypto.SHA1, h[:], sig)
	} else {
		h := sha256.Sum256([]byte(octets))
		err = rsa.VerifyPKCS1v15(pub, crypto.SHA256, h[:], sig)
	}
	if err != nil {
		return err.Error()
	}
	return ""
}
