// Package c10 enumerates storage / key faults on every endpoint: each storage operation an endpoint invokes x each
// call occurrence x each fault kind, singly (and in pairs in the thorough tier).
package c10

import (
	"bytes"
	"fmt"
	"net/http"
	"strings"
	"time"

	"github.com/zitadel/saml/pkg/provider"

	"verif/harness/internal/coqgen"
	"verif/harness/internal/idp"
	"verif/harness/internal/sso"
)

const issuer = "https://idp.example/saml"
const statusSuccess = "urn:oasis:names:tc:SAML:2.0:status:Success"

type endpoint struct {
	name  string
	conf  func() *provider.Config
	setup func(st *idp.Storage)
	req   func() idp.ReqSpec
}

func keyKinds(op string) []string {
	if op == "GetResponseSigningKey" || op == "GetMetadataSigningKey" {
		return append(append([]string{}, idp.ErrorKinds...), "nilrecord", "nokey", "nocert", "emptycert")
	}
	return idp.ErrorKinds
}

func endpoints() []endpoint {
	base := func() *provider.Config { return idp.DefaultConf() }
	signedMeta := func(alg string) func() *provider.Config {
		return func() *provider.Config {
			c := idp.DefaultConf()
			c.MetadataConfig = &provider.MetadataConfig{SignatureAlgorithm: alg}
			return c
		}
	}
	withOrg := func(f func() *provider.Config) func() *provider.Config {
		return func() *provider.Config {
			c := f()
			c.Organisation = &provider.Organisation{Name: "Org", DisplayName: "Organisation", URL: "https://org.example"}
			c.ContactPerson = &provider.ContactPerson{ContactType: "technical", Company: "Org", GivenName: "A", SurName: "B", EmailAddress: "a@org.example", TelephoneNumber: "1"}
			return c
		}
	}
	badAlg := func() *provider.Config {
		c := idp.DefaultConf()
		c.IDPConfig.SignatureAlgorithm = "http://example.org/unusable"
		return c
	}
	regSP := func(st *idp.Storage) { st.Register("app-1", sso.BaseSP(nil, true)) }
	user := &idp.User{Email: "a@b.c", Username: "login", UserID: "u1", FullName: "Full Name"}
	cb := func(binding string) func(st *idp.Storage) {
		return func(st *idp.Storage) {
			regSP(st)
			st.Users["u1"] = user
			st.Requests["r1"] = &idp.AuthReq{ID: "r1", AppID: "app-1", RelayState: "rs", ACS: "https://sp.example/acs/post", Binding: binding, AuthReqID: "_a1", UserID: "u1", IsDone: true}
		}
	}
	ssoReq := func() idp.ReqSpec {
		a := sso.BaseReq("_c10")
		return idp.ReqSpec{Method: http.MethodGet, Path: "/SSO", Query: []idp.Param{idp.Q("SAMLRequest", idp.DeflateB64(a.XML(idp.DefaultStyle))), idp.Q("RelayState", "rs")}}
	}
	now := time.Now().UTC().Format(sso.TimeFmt)
	lr := `<samlp:LogoutRequest xmlns:samlp="urn:oasis:names:tc:SAML:2.0:protocol" xmlns:saml="urn:oasis:names:tc:SAML:2.0:assertion" ID="_lo" Version="2.0" IssueInstant="` + now + `"><saml:Issuer>` + sso.SPEntity + `</saml:Issuer><saml:NameID>u</saml:NameID></samlp:LogoutRequest>`
	aq := `<soap:Envelope xmlns:soap="http://schemas.xmlsoap.org/soap/envelope/"><soap:Body><samlp:AttributeQuery xmlns:samlp="urn:oasis:names:tc:SAML:2.0:protocol" xmlns:saml="urn:oasis:names:tc:SAML:2.0:assertion" ID="_aq" Version="2.0"><saml:Issuer>` + sso.SPEntity + `</saml:Issuer><saml:Subject><saml:NameID>login</saml:NameID></saml:Subject></samlp:AttributeQuery></soap:Body></soap:Envelope>`
	get := func(path string) func() idp.ReqSpec {
		return func() idp.ReqSpec { return idp.ReqSpec{Method: http.MethodGet, Path: path} }
	}
	return []endpoint{
		{"sso", base, regSP, ssoReq},
		{"callback-post", base, cb(idp.PostBinding), func() idp.ReqSpec {
			return idp.ReqSpec{Method: http.MethodGet, Path: "/login", Query: []idp.Param{idp.Q("id", "r1")}}
		}},
		{"callback-redirect", base, cb(idp.RedirBinding), func() idp.ReqSpec {
			return idp.ReqSpec{Method: http.MethodGet, Path: "/login", Query: []idp.Param{idp.Q("id", "r1")}}
		}},
		{"callback-post-unusable-algorithm", badAlg, cb(idp.PostBinding), func() idp.ReqSpec {
			return idp.ReqSpec{Method: http.MethodGet, Path: "/login", Query: []idp.Param{idp.Q("id", "r1")}}
		}},
		{"callback-redirect-unusable-algorithm", badAlg, cb(idp.RedirBinding), func() idp.ReqSpec {
			return idp.ReqSpec{Method: http.MethodGet, Path: "/login", Query: []idp.Param{idp.Q("id", "r1")}}
		}},
		{"logout", base, regSP, func() idp.ReqSpec {
			return idp.ReqSpec{Method: http.MethodPost, Path: "/SLO", Body: []idp.Param{idp.Q("SAMLRequest", idp.B64([]byte(lr)))}}
		}},
		{"attribute", base, func(st *idp.Storage) { regSP(st); st.Logins["login"] = user }, func() idp.ReqSpec { return idp.ReqSpec{Method: http.MethodPost, Path: "/attribute", RawBody: &aq} }},
		{"attribute-unusable-algorithm", badAlg, func(st *idp.Storage) { regSP(st); st.Logins["login"] = user }, func() idp.ReqSpec { return idp.ReqSpec{Method: http.MethodPost, Path: "/attribute", RawBody: &aq} }},
		{"metadata", base, func(*idp.Storage) {}, get("/metadata")},
		{"metadata-with-organisation", withOrg(base), func(*idp.Storage) {}, get("/metadata")},
		{"metadata-signed", signedMeta(idp.RSASHA256), func(*idp.Storage) {}, get("/metadata")},
		{"metadata-signed-with-organisation", withOrg(signedMeta(idp.RSASHA256)), func(*idp.Storage) {}, get("/metadata")},
		{"metadata-signed-unusable-algorithm", signedMeta("http://example.org/unusable"), func(*idp.Storage) {}, get("/metadata")},
		{"certificate", base, func(*idp.Storage) {}, get("/certificate")},
		{"ready", base, func(*idp.Storage) {}, get("/ready")},
		{"healthz", base, func(*idp.Storage) {}, get("/healthz")},
	}
}

type plan []idp.Fault

func Run(dir, tier string, seed int64) error {
	run := coqgen.NewRun(dir, "C10", tier, seed)
	run.Imports = "From Saml Require Import Base.Bytes Corr.C10Corr."
	run.CaseType = "c10case"
	run.BadFn = "c10_bad"
	id := 0
	for _, ep := range endpoints() {
		env, err := idp.NewEnv(idp.EnvConfig{Issuer: issuer, Conf: ep.conf()})
		if err != nil {
			return err
		}
		st := env.Storage
		ep.setup(st)
		// fault-free run: which operations does this endpoint invoke, in which order?
		st.ResetLog()
		ref := env.Do(ep.req().HTTP())
		seq := st.Log()
		counts := map[string]int{}
		var singles []idp.Fault
		for _, c := range seq {
			counts[c.Op]++
			for _, k := range keyKinds(c.Op) {
				singles = append(singles, idp.Fault{Op: c.Op, Nth: counts[c.Op], Kind: k})
			}
		}
		plans := []plan{{}}
		for _, f := range singles {
			plans = append(plans, plan{f})
		}
		if tier == "thorough" {
			for i := range singles {
				for j := i + 1; j < len(singles); j++ {
					if singles[i].Op != singles[j].Op || singles[i].Nth != singles[j].Nth {
						plans = append(plans, plan{singles[i], singles[j]})
					}
				}
			}
		}
		refOps := make([]string, len(seq))
		for i, c := range seq {
			refOps[i] = c.Op
		}
		for _, pl := range plans {
			// fresh request state for endpoints that mutate storage
			if strings.HasPrefix(ep.name, "sso") {
				st.Requests = map[string]*idp.AuthReq{}
			}
			st.ResetLog()
			st.Faults = append([]idp.Fault(nil), pl...)
			rep := env.Do(ep.req().HTTP())
			st.Faults = nil
			run.Res.Evaluations++
			fired := append([]idp.Fault(nil), st.Fired...)
			log := st.Log()
			desc := map[string]interface{}{"endpoint": ep.name, "faults": pl, "fired": fired, "reply_kind": rep.Kind, "code": rep.Code, "status": rep.Status, "calls": log, "fault_free_calls": refOps, "panic": rep.Panic}
			run.Count("endpoint=" + ep.name)
			run.Count("reply=" + rep.Kind)
			fk := "none"
			if len(pl) > 0 {
				fk = pl[0].Op + ":" + pl[0].Kind
			}
			run.Distinct(fmt.Sprintf("%s/%s/%d->%s/%s", ep.name, fk, len(pl), rep.Kind, rep.Status))
			if id%17 == 3 {
				run.Sample(desc)
			}
			fail := func(class, what string) { run.Fail(coqgen.Failure{ID: id, Class: class, What: what, Input: desc}) }
			// ---- oracle
			body := string(rep.Body)
			if rep.Msg != nil {
				body += string(rep.Msg)
			}
			leaks := strings.Contains(body, "<NameID") && strings.Contains(body, "login") || strings.Contains(body, "a@b.c") || strings.Contains(body, "Full Name")
			switch {
			case rep.Kind == "panic":
				fail("panic:"+ep.name, rep.Panic)
			case len(fired) == 0 && len(pl) == 0:
				// the fault-free run documents what the endpoint does; nothing to check here
			case len(fired) > 0:
				isErr := rep.Code >= 500 || (rep.Status != "" && rep.Status != statusSuccess)
				if !isErr {
					fail("fault-not-answered-with-error:"+ep.name, fmt.Sprintf("fault %v fired; reply kind %s code %d status %q", fired, rep.Kind, rep.Code, rep.Status))
				}
				if rep.Status == statusSuccess || leaks {
					fail("fault-reply-carries-success-or-user-data:"+ep.name, fmt.Sprintf("fault %v fired; status %q, user data in reply: %v", fired, rep.Status, leaks))
				}
				if strings.HasPrefix(ep.name, "metadata") && bytes.Contains(rep.Body, []byte("EntityDescriptor")) {
					fail("metadata-served-despite-key-fault", fmt.Sprintf("fault %v fired but a metadata document was served", fired))
				}
				// no persistence after the first fault
				seen := false
				firstFault := fired[0]
				cnt := map[string]int{}
				for _, c := range log {
					cnt[c.Op]++
					if c.Op == firstFault.Op && cnt[c.Op] == firstFault.Nth {
						seen = true
						continue
					}
					if seen && c.Op == "CreateAuthRequest" {
						fail("persistence-after-fault:"+ep.name, "CreateAuthRequest called after the injected fault")
					}
				}
			}
			// ---- Coq cases for the three small endpoints
			healthOK := true
			shapeOf := func(kind string) int {
				switch kind {
				case "nilrecord":
					return 2
				case "nokey":
					return 3
				case "nocert":
					return 4
				case "emptycert":
					return 5
				}
				return 1 // every error shape
			}
			rShape, mShape := 0, 0
			for _, f := range fired {
				switch f.Op {
				case "GetResponseSigningKey":
					rShape = shapeOf(f.Kind)
				case "GetMetadataSigningKey":
					mShape = shapeOf(f.Kind)
				case "Health":
					healthOK = false
				}
			}
			obs := 5
			switch {
			case rep.Kind == "panic":
				obs = 6
			case rep.Code == 200 && bytes.Contains(rep.Body, []byte("EntityDescriptor")):
				obs = 1
				if doc, err := idp.ParseXML(rep.Body); err == nil && doc.Child("Signature") != nil {
					obs = 2
				}
			case rep.Code == 200 && bytes.Contains(rep.Body, []byte("BEGIN CERTIFICATE")):
				obs = 3
			case rep.Code == 200 && rep.Kind == "json":
				obs = 4
			}
			epk := 0
			signConf, signerOK := false, true
			switch {
			case strings.HasPrefix(ep.name, "metadata"):
				epk = 1
				signConf = ep.name != "metadata" && ep.name != "metadata-with-organisation"
				signerOK = ep.name != "metadata-signed-unusable-algorithm"
				// (an empty certificate passes getMetadataCert and fails in the signer: decided by the model from the answer shape)
			case ep.name == "certificate":
				epk = 2
			case ep.name == "ready":
				epk = 3
			}
			if epk != 0 {
				run.AddCase(id, fmt.Sprintf("(%s, %s, %s, %s, %s, %s, %s, %s)", coqgen.Z(int64(id)), coqgen.Z(int64(epk)), coqgen.Z(int64(rShape)), coqgen.Bool(signConf), coqgen.Z(int64(mShape)), coqgen.Bool(signerOK), coqgen.Bool(healthOK), coqgen.Z(int64(obs))), desc)
			}
			id++
		}
		_ = ref
	}
	run.Res.Exhaustive = true
	run.Res.Rule = "for each of 16 endpoint configurations (SSO; callback POST / Redirect with usable and unusable signature algorithm; logout; attribute query with usable / unusable algorithm; metadata unsigned / signed / signed with unusable algorithm, with and without organisation and contact data; certificate; readiness; health) the storage operations of a fault-free request are recorded, then every (operation, call occurrence, fault kind) is injected singly (thorough: also every pair): returned error in five shapes (opaque, wrapping context.Canceled / context.DeadlineExceeded, io.EOF, a sentinel value) for all operations, and for the two signing-key getters additionally nil record, key without certificate, certificate without key, empty certificate. Oracle: error reply, no Success, no user data, no metadata document, no CreateAuthRequest after the fault, no panic. The metadata / certificate / readiness replies are also compared with the Coq model; the other endpoints' models are compared under faults in C01, C08, C12, C13. distinct = (endpoint, fault, #faults, reply kind, status)."
	return run.Finish()
}
