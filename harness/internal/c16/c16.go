// Package c16 enumerates ACS lists against the exported selection function, an independent Go oracle of the
// documented rule, and the Coq model (the go2v-generated function evaluated by coqc).
package c16

import (
	"fmt"
	"math/rand"
	"net/http"
	"strconv"
	"verif/harness/internal/idp"

	"github.com/zitadel/saml/pkg/provider"
	"github.com/zitadel/saml/pkg/provider/xml/md"

	"verif/harness/internal/coqgen"
)

var bindings = []string{provider.PostBinding, provider.RedirectBinding, "urn:oasis:names:tc:SAML:2.0:bindings:HTTP-Artifact", "urn:example:other"}
var indexes = []string{"0", "1", "2", "7", "65535"}
var defaults = []string{"", "true", "false", "1", "0"}
var requested = []string{"", provider.PostBinding, provider.RedirectBinding, "urn:oasis:names:tc:SAML:2.0:bindings:HTTP-Artifact", "urn:example:other", "urn:example:unlisted"}

type Entry struct {
	Index, IsDefault, Binding, Location string
}

func isTrue(s string) bool { return s == "true" || s == "1" }

// oracle: the documented rule; returns the set of acceptable (url, binding) pairs
func acceptable(l []Entry, req string) map[[2]string]bool {
	out := map[[2]string]bool{}
	if len(l) == 0 {
		out[[2]string{"", ""}] = true
		return out
	}
	for _, e := range l {
		if e.Binding == req {
			out[[2]string{e.Location, e.Binding}] = true
			return out
		}
	}
	for _, e := range l {
		if isTrue(e.IsDefault) {
			out[[2]string{e.Location, e.Binding}] = true
			return out
		}
	}
	min := -1
	for _, e := range l {
		i, _ := strconv.Atoi(e.Index)
		if min < 0 || i < min {
			min = i
		}
	}
	for _, e := range l {
		if i, _ := strconv.Atoi(e.Index); i == min {
			out[[2]string{e.Location, e.Binding}] = true
		}
	}
	return out
}

func toMD(l []Entry) []md.IndexedEndpointType {
	o := make([]md.IndexedEndpointType, len(l))
	for i, e := range l {
		o[i] = md.IndexedEndpointType{Index: e.Index, IsDefault: e.IsDefault, Binding: e.Binding, Location: e.Location}
	}
	return o
}

func classOf(l []Entry, req string) string {
	for _, e := range l {
		if e.Binding == req {
			return "binding-match"
		}
	}
	for _, e := range l {
		if isTrue(e.IsDefault) {
			if e.IsDefault == "1" {
				return "default-1"
			}
			return "default-true"
		}
	}
	if len(l) == 0 {
		return "empty"
	}
	for _, e := range l {
		if e.Index == "0" {
			return "lowest-index-with-0"
		}
	}
	return "lowest-index"
}

func Run(dir, tier string, seed int64) error {
	run := coqgen.NewRun(dir, "C16", tier, seed)
	run.Imports = "From Saml Require Import Base.Bytes Corr.C16Corr."
	run.CaseType = "c16case"
	run.BadFn = "c16_bad"
	r := rand.New(rand.NewSource(seed))
	maxLen, coqSample := 3, 1500
	if tier == "thorough" {
		maxLen, coqSample = 4, 8000
	}
	id := 0
	emit := func(l []Entry, req string, u, bnd string) {
		es := make([]string, len(l))
		for i, e := range l {
			es[i] = fmt.Sprintf("(%s, %s, %s, %s)", coqgen.Bytes(e.Index), coqgen.Bytes(e.IsDefault), coqgen.Bytes(e.Binding), coqgen.Bytes(e.Location))
		}
		d := map[string]interface{}{"acs": l, "requested": req, "url": u, "binding": bnd}
		run.AddCase(id, fmt.Sprintf("(%s, %s, %s, (%s, %s))", coqgen.Z(int64(id)), coqgen.List(es), coqgen.Bytes(req), coqgen.Bytes(u), coqgen.Bytes(bnd)), d)
		if len(l) >= 2 {
			run.Sample(d)
		}
	}
	total := 0.0
	for n, c := 0, 1.0; n <= maxLen; n++ {
		total += c * 6
		c *= 100
	}
	pick := float64(coqSample) / total
	handle := func(l []Entry, req string, wf bool) {
		u, bnd := provider.GetAcsUrlAndBindingForResponse(toMD(l), req)
		run.Res.Evaluations++
		if wf {
			cl := classOf(l, req)
			run.Count("class=" + cl)
			run.Distinct(fmt.Sprintf("%s/len%d", cl, len(l)))
			if !acceptable(l, req)[[2]string{u, bnd}] {
				run.Fail(coqgen.Failure{ID: id, Class: "acs-selection:" + cl, What: fmt.Sprintf("selected (%q,%q), not the documented entry", u, bnd),
					Input: map[string]interface{}{"acs": l, "requested": req, "url": u, "binding": bnd}})
			}
		} else {
			run.Count("class=raw-index-strings")
		}
		if len(l) <= 1 || !wf || r.Float64() < pick {
			emit(append([]Entry(nil), l...), req, u, bnd)
		}
		id++
	}
	var rec func(prefix []Entry, n int)
	rec = func(prefix []Entry, n int) {
		if len(prefix) == n {
			for _, req := range requested {
				handle(prefix, req, true)
			}
			return
		}
		for _, bn := range bindings {
			for _, ix := range indexes {
				for _, d := range defaults {
					rec(append(prefix, Entry{ix, d, bn, fmt.Sprintf("https://sp.example/acs%d", len(prefix))}), n)
				}
			}
		}
	}
	for n := 0; n <= maxLen; n++ {
		rec(nil, n)
	}
	run.Res.Exhaustive = true
	// model-vs-implementation only: odd index strings and empty locations (outside wf_acs)
	odd := []string{"", "abc", "-1", "+2", "007", "99999999999999999999", "-99999999999999999999", " 1", "1 ", "0x10", "1_0", "٣"}
	for i := 0; i < 600; i++ {
		n := 1 + r.Intn(4)
		l := make([]Entry, n)
		for j := range l {
			loc := fmt.Sprintf("https://sp.example/acs%d", j)
			if r.Intn(5) == 0 {
				loc = ""
			}
			ix := odd[r.Intn(len(odd))]
			if r.Intn(3) == 0 {
				ix = indexes[r.Intn(len(indexes))]
			}
			l[j] = Entry{ix, defaults[r.Intn(len(defaults))], bindings[r.Intn(len(bindings))], loc}
		}
		handle(l, requested[r.Intn(len(requested))], false)
	}
	// end to end: what the SSO endpoint persists for a request is the documented selection over the entries IN THE ORDER OF THE
	// REGISTERED METADATA DOCUMENT and the ProtocolBinding AS WRITTEN in the request (absent = none requested)
	env, err := idp.NewEnv(idp.EnvConfig{Issuer: "https://idp.example/saml"})
	if err != nil {
		return err
	}
	nE2E := 250
	if tier == "thorough" {
		nE2E = 3000
	}
	for i := 0; i < nE2E; i++ {
		n := 1 + r.Intn(4)
		l := make([]Entry, n)
		var acs []idp.ACS
		for j := range l {
			l[j] = Entry{indexes[r.Intn(len(indexes))], defaults[r.Intn(len(defaults))], bindings[r.Intn(len(bindings))], fmt.Sprintf("https://sp.example/acs%d", j)}
			acs = append(acs, idp.ACS{Index: l[j].Index, Binding: l[j].Binding, Location: l[j].Location, IsDefault: l[j].IsDefault})
		}
		req := requested[r.Intn(4)]
		env.Storage.ClearSPs()
		if _, err := env.Storage.Register("app-1", idp.SPMeta{EntityID: "https://sp.example/metadata", ACS: acs}); err != nil {
			run.Count("e2e-registration-refused")
			continue
		}
		pb := ""
		if req != "" {
			pb = ` ProtocolBinding="` + req + `"`
		}
		doc := `<samlp:AuthnRequest xmlns:samlp="urn:oasis:names:tc:SAML:2.0:protocol" xmlns:saml="urn:oasis:names:tc:SAML:2.0:assertion" ID="_e2e" Version="2.0" IssueInstant="` + idp.NowInstant() + `"` + pb + `><saml:Issuer>https://sp.example/metadata</saml:Issuer></samlp:AuthnRequest>`
		env.Storage.ResetLog()
		env.Do(idp.ReqSpec{Method: http.MethodPost, Path: "/SSO", Body: []idp.Param{idp.Q("SAMLRequest", idp.B64([]byte(doc)))}}.HTTP())
		run.Res.Evaluations++
		run.Count("end-to-end")
		for _, c := range env.Storage.Log() {
			if c.Op != "CreateAuthRequest" {
				continue
			}
			run.Count("end-to-end-persisted")
			if !acceptable(l, req)[[2]string{c.Args[0], c.Args[1]}] {
				run.Fail(coqgen.Failure{ID: 9000000 + i, Class: "end-to-end-selection-differs", What: fmt.Sprintf("persisted (%q,%q) is not the documented selection over the registered document order for requested binding %q", c.Args[0], c.Args[1], req),
					Input: map[string]interface{}{"acs_in_document_order": l, "requested": req, "persisted_url": c.Args[0], "persisted_binding": c.Args[1]}})
			}
		}
	}
	run.Res.Rule = fmt.Sprintf("every ACS list up to length %d over 4 bindings x 5 indexes x 5 isDefault forms, times 6 requested bindings (exhaustive), checked on the exported function by an independent oracle of the documented rule (any minimal-index entry accepted); all lists of length <= 1, 600 lists with malformed index strings / empty locations and a seeded sample (%d) are evaluated by the go2v-generated Coq function and compared; end to end, %d random metadata documents (1-4 entries, any index order, several defaults) x requested binding {absent, POST, Redirect, Artifact} go through /SSO and the persisted pair must be the documented selection over the document order and the binding as written. distinct = (selection class, length).", maxLen, coqSample, nE2E)
	return run.Finish()
}
