// Package c19: issuer validation (ValidateIssuer / NewProvider with a static issuer) and host-derived issuers.
package c19

import (
	"fmt"
	"math/rand"
	"net/http"
	"net/url"
	"regexp"
	"strings"

	"github.com/muhlemmer/httpforwarded"
	"github.com/zitadel/saml/pkg/provider"

	"verif/harness/internal/coqgen"
	"verif/harness/internal/idp"
)

var issuers = []string{
	"https://idp.example", "https://idp.example/", "https://idp.example/saml", "https://idp.example/saml/", "https://idp.example:8443/saml", "HTTPS://idp.example/saml", "HtTpS://IDP.example",
	"http://idp.example/saml", "http://localhost:8080", "HTTP://localhost", "ftp://idp.example", "ws://idp.example", "httpss://idp.example", "://idp.example", "idp.example/saml", "//idp.example/saml", "/saml", "saml",
	"https://", "https:///saml", "https:idp.example", "https:/idp.example", "mailto:idp@example", "urn:idp:example", "",
	"https://user:pw@idp.example/saml", "https://user@idp.example", "https://[::1]/saml", "https://[::1]:8443/saml", "https://[fe80::1%25eth0]/", "https://[::1", "https://idp.example:port/", "https://idp.example:99999/",
	"https://idp.example/saml?", "https://idp.example/saml?x=1", "https://idp.example/saml?;x", "https://idp.example/saml?&", "https://idp.example/saml#", "https://idp.example/saml#frag", "https://idp.example/?#", "https://idp.example?x", "https://idp.example#x",
	"https://idp.example/sa ml", "https://idp.example/saml\n", "https://idp.example/\x00", "https://idp .example/", "https://idp.example/%zz", "https://idp.example/%41", "https://idp.example/%3f", "https://idp.example/%23x", "https://idp.example/ü", "https://ü.example/", " https://idp.example", "https://idp.example/saml ",
}

func parts(s string) (string, *url.URL) {
	u, err := url.Parse(s)
	if err != nil {
		return "None", nil
	}
	return fmt.Sprintf("(Some {| up_scheme := %s; up_host := %s; up_fragment := %s; up_has_query := %s |})", coqgen.Bytes(u.Scheme), coqgen.Bytes(u.Host), coqgen.Bytes(u.Fragment), coqgen.Bool(len(u.Query()) > 0)), u
}

func Run(dir, tier string, seed int64) error {
	run := coqgen.NewRun(dir, "C19", tier, seed)
	run.Imports = "From Saml Require Import Base.Bytes Core.Issuer Corr.C19Corr."
	run.CaseType = "c19case"
	run.BadFn = "c19_bad"
	r := rand.New(rand.NewSource(seed))
	id := 0
	all := append([]string(nil), issuers...)
	nRand := 300
	if tier == "thorough" {
		nRand = 6000
	}
	pieces := []string{"https", "http", "HTTPS", "://", ":", "/", "//", "idp.example", "[::1]", "user@", ":8443", "/saml", "?", "?x=1", "#", "#f", "%41", "%zz", " ", "\t", "ü", ";", "&", "@", "."}
	for i := 0; i < nRand; i++ {
		var sb strings.Builder
		for k := 1 + r.Intn(6); k > 0; k-- {
			sb.WriteString(pieces[r.Intn(len(pieces))])
		}
		all = append(all, sb.String())
	}
	for _, s := range all {
		for _, insecure := range []bool{false, true} {
			acc := provider.ValidateIssuer(s, insecure) == nil
			// NewProvider must agree with ValidateIssuer for static issuers
			opts := []provider.Option{}
			if insecure {
				opts = append(opts, provider.WithAllowInsecure())
			}
			st := idp.NewStorage()
			_, perr := provider.NewProvider(st, provider.StaticIssuer(s), idp.DefaultConf(), opts...)
			run.Res.Evaluations++
			ps, u := parts(s)
			desc := map[string]interface{}{"issuer": s, "insecure": insecure, "accepted": acc}
			run.AddCase(id, fmt.Sprintf("KStatic %s %s %s %s %s", coqgen.Z(int64(id)), coqgen.Bytes(s), coqgen.Bool(insecure), ps, coqgen.Bool(acc)), desc)
			cls := "rejected"
			if acc {
				cls = "accepted"
			}
			run.Count("static=" + cls)
			run.Distinct(fmt.Sprintf("static/%s/%v/%d", cls, insecure, len(s)%13))
			fail := func(class, what string) { run.Fail(coqgen.Failure{ID: id, Class: class, What: what, Input: desc}) }
			if (perr == nil) != acc {
				fail("newprovider-disagrees-with-validateissuer", fmt.Sprintf("NewProvider error %v, ValidateIssuer accepted %v", perr, acc))
			}
			if acc {
				// independent oracle on the string itself
				low := strings.ToLower(s)
				okScheme := strings.HasPrefix(low, "https://") || insecure && strings.HasPrefix(low, "http://")
				if !okScheme {
					fail("issuer-accepted-with-wrong-scheme", s)
				}
				if strings.ContainsAny(s, "?#") {
					fail("issuer-accepted-with-query-or-fragment", s)
				}
				if u == nil || u.Host == "" || !u.IsAbs() {
					fail("issuer-accepted-without-host", s)
				}
			}
			if id%53 == 1 {
				run.Sample(desc)
			}
			id++
		}
	}
	// ---- host-derived issuers
	paths := []string{"", "saml", "/saml", "/a/b/", "x y"}
	hosts := []string{"idp.example", "idp.example:8443", "tenant-1.idp.example", "[::1]:8080"}
	forwarded := [][]string{nil, {"host=fw.example"}, {`host="fw.example:8443";proto=http`}, {"for=1.2.3.4", "host=second.example"}, {"host=a.example, host=b.example"}, {"for=1.2.3.4;proto=https"},
		{"host="}, {"this is ;; not valid"}, {`host="evil.example/a?b#c"`}, {`host="evil.example\\"`}, {"HOST=Upper.example"}, {"host=fw.example", "garbage ;;"}}
	custom := [][]string{nil, {"X-Forwarded-Host"}, {"x-original-forwarded", "forwarded"}}
	n := 0
	for _, path := range paths {
		for _, insecure := range []bool{false, true} {
			for _, ch := range custom {
				p := path
				cfg := idp.EnvConfig{HostPath: &p, Forwarded: true, CustomHeaders: ch, Insecure: insecure}
				if n%5 == 0 {
					cfg = idp.EnvConfig{HostPath: &p, Insecure: insecure} // IssuerFromHost: headers ignored
				}
				n++
				env, err := idp.NewEnv(cfg)
				if err != nil {
					run.Note("NewProvider with host-derived issuer path %q failed: %v", path, err)
					continue
				}
				headers := ch
				if len(headers) == 0 {
					headers = []string{"Forwarded"}
				}
				if !cfg.Forwarded {
					headers = nil
				}
				for _, host := range hosts {
					for _, fw := range forwarded {
						spec := idp.ReqSpec{Method: http.MethodGet, Path: "/metadata", Host: host, Header: map[string][]string{}}
						for _, h := range headers {
							spec.Header[http.CanonicalHeaderKey(h)] = fw
						}
						// headers that are NOT configured must be ignored, whatever they say: the standard Forwarded header when
						// custom ones are configured, any forwarding header for a Host-derived issuer
						unconfigured := map[string]bool{}
						for _, name := range []string{"Forwarded", "X-Forwarded-Host", "X-Original-Forwarded"} {
							cfgd := false
							for _, h := range headers {
								if http.CanonicalHeaderKey(h) == name {
									cfgd = true
								}
							}
							if !cfgd && (len(spec.Header)+len(host))%2 == 0 {
								spec.Header[name] = []string{"host=unconfigured.example"}
								unconfigured[name] = true
							}
						}
						if len(headers) > 1 { // first configured header unparsable, second fine
							spec.Header[http.CanonicalHeaderKey(headers[0])] = []string{"garbage ;;"}
						}
						rep := env.Do(spec.HTTP())
						run.Res.Evaluations++
						obs := env.Provider.IssuerFromRequest(spec.HTTP())
						if doc, err := idp.ParseXML(rep.Body); err != nil || doc.AttrOr("entityID", "") != strings.TrimSuffix(obs, "/")+"/metadata" {
							run.Fail(coqgen.Failure{ID: id, Class: "served-entityid-differs-from-issuer", What: fmt.Sprintf("issuer %q, served metadata %q", obs, string(rep.Body[:min(len(rep.Body), 120)])), Input: spec})
						}
						var parsed []string
						for _, h := range headers {
							hs, err := httpforwarded.ParseParameter("host", spec.Header[http.CanonicalHeaderKey(h)])
							if err != nil {
								parsed = append(parsed, "None")
							} else {
								parsed = append(parsed, "(Some "+coqgen.BytesList(hs)+")")
							}
						}
						desc := map[string]interface{}{"path": path, "insecure": insecure, "headers": spec.Header, "host": host, "entity_id_prefix": obs}
						run.AddCase(id, fmt.Sprintf("KDerived %s %s %s %s %s %s", coqgen.Z(int64(id)), coqgen.List(parsed), coqgen.Bytes(host), coqgen.Bytes(path), coqgen.Bool(insecure), coqgen.Bytes(obs)), desc)
						run.Count("derived")
						run.Distinct(fmt.Sprintf("derived/%s/%v/%d/%s", path, insecure, len(ch), strings.Join(fw, "|")))
						fail := func(class, what string) { run.Fail(coqgen.Failure{ID: id, Class: class, What: what, Input: desc}) }
						scheme := "https://"
						if insecure {
							scheme = "http://"
						}
						wantPath := path
						if wantPath != "" && !strings.HasPrefix(wantPath, "/") {
							wantPath = "/" + wantPath
						}
						if !strings.HasPrefix(obs, scheme) || !strings.HasSuffix(obs, wantPath) {
							fail("derived-issuer-scheme-or-path-from-request", obs)
						} else {
							h := strings.TrimSuffix(strings.TrimPrefix(obs, scheme), wantPath)
							if strings.ContainsAny(h, "/?#") {
								fail("forwarded-host-with-path-characters", fmt.Sprintf("issuer %q: the forwarded host value %q carries path / query / fragment characters into the issuer", obs, h))
							}
						}
						// independent reference for syntactically simple header values: the first host parameter, scanning the
						// configured headers in order and, within a header, its lines and elements in order; else the Host
						if want, ok := referenceHost(headers, spec.Header, host); ok {
							run.Count("derived-reference-applicable")
							if obs != scheme+want+wantPath {
								fail("derived-issuer-not-first-forwarded-host-else-host", fmt.Sprintf("issuer %q, expected %q", obs, scheme+want+wantPath))
							}
						}
						if id%97 == 1 {
							run.Sample(desc)
						}
						id++
					}
				}
			}
		}
	}
	run.Res.Rule = "static: 56 hand-picked issuer strings (scheme case, userinfo, ports, IPv6 literals, empty hosts, opaque and relative URLs, control characters, empty / non-empty query and fragment, percent escapes) plus random concatenations of URL pieces, x insecure on/off, through ValidateIssuer and NewProvider(StaticIssuer); url.Parse supplies the components to the model; the oracle checks the accepted strings themselves. derived: providers built with IssuerFromHost / IssuerFromForwardedOrHost (default and custom header lists) x 5 paths x insecure x 4 Host values x 12 Forwarded header shapes (multiple headers, multiple elements, quoted hosts, malformed syntax), with forwarding headers that are not configured also present (they must be ignored); the entityID served at /metadata is compared with the model formula (header syntax parsed by httpforwarded as oracle) and, for syntactically simple header values, with an independent reference (first host parameter over headers, lines and elements in order, else Host). distinct = input class."
	return run.Finish()
}

var simplePair = regexp.MustCompile(`^[A-Za-z]+=("[^"\\]+"|[^;,\s"=]+)$`)

// referenceHost is an independent reading of RFC 7239 for header values made only of name=token / name="quoted" pairs;
// ok is false when any configured header line is outside that fragment (then the parse oracle decides alone).
func referenceHost(headers []string, hdr map[string][]string, requestHost string) (string, bool) {
	for _, h := range headers {
		var hosts []string
		for _, line := range hdr[http.CanonicalHeaderKey(h)] {
			for _, el := range strings.Split(line, ",") {
				for _, pair := range strings.Split(el, ";") {
					pair = strings.TrimSpace(pair)
					if !simplePair.MatchString(pair) {
						return "", false
					}
					kv := strings.SplitN(pair, "=", 2)
					if strings.EqualFold(kv[0], "host") {
						hosts = append(hosts, strings.Trim(kv[1], `"`))
					}
				}
			}
		}
		if len(hosts) > 0 {
			return hosts[0], true
		}
	}
	return requestHost, true
}
