// Copyright 2010 The Go Authors. All rights reserved.
// Use of this source code is governed by a BSD-style
// license that can be found in the LICENSE file.

package xhtml

import (
	"bytes"
	"strings"
	"unicode/utf8"
)

// These replacements permit compatibility with old numeric entities that
// assumed Windows-1252 encoding.
// https://html.spec.whatwg.org/multipage/syntax.html#consume-a-character-reference
var replacementTable = [...]rune{
	'\u20AC', // First entry is what 0x80 should be replaced with.
	'\u0081',
	'\u201A',
	'\u0192',
	'\u201E',
	'\u2026',
	'\u2020',
	'\u2021',
	'\u02C6',
	'\u2030',
	'\u0160',
	'\u2039',
	'\u0152',
	'\u008D',
	'\u017D',
	'\u008F',
	'\u0090',
	'\u2018',
	'\u2019',
	'\u201C',
	'\u201D',
	'\u2022',
	'\u2013',
	'\u2014',
	'\u02DC',
	'\u2122',
	'\u0161',
	'\u203A',
	'\u0153',
	'\u009D',
	'\u017E',
	'\u0178', // Last entry is 0x9F.
	// 0x00->'\uFFFD' is handled programmatically.
	// 0x0D->'\u000D' is a no-op.
}

// unescapeEntity reads an entity like "&lt;" from b[src:] and writes the
// corresponding "<" to b[dst:], returning the incremented dst and src cursors.
// Precondition: b[src] == '&' && dst <= src.
// attribute should be true if parsing an attribute value.
func unescapeEntity(b []byte, dst, src int, attribute bool) (dst1, src1 int) {
	// https://html.spec.whatwg.org/multipage/syntax.html#consume-a-character-reference

	// i starts at 1 because we already know that s[0] == '&'.
	i, s := 1, b[src:]

	if len(s) <= 1 {
		b[dst] = b[src]
		return dst + 1, src + 1
	}

	if s[i] == '#' {
		if len(s) <= 3 { // We need to have at least "&#.".
			b[dst] = b[src]
			return dst + 1, src + 1
		}
		i++
		c := s[i]
		hex := false
		if c == 'x' || c == 'X' {
			hex = true
			i++
		}

		x := '\x00'
		for i < len(s) {
			c = s[i]
			i++
			if hex {
				if '0' <= c && c <= '9' {
					x = 16*x + rune(c) - '0'
					continue
				} else if 'a' <= c && c <= 'f' {
					x = 16*x + rune(c) - 'a' + 10
					continue
				} else if 'A' <= c && c <= 'F' {
					x = 16*x + rune(c) - 'A' + 10
					continue
				}
			} else if '0' <= c && c <= '9' {
				x = 10*x + rune(c) - '0'
				continue
			}
			if c != ';' {
				i--
			}
			break
		}

		if i <= 3 { // No characters matched.
			b[dst] = b[src]
			return dst + 1, src + 1
		}

		if 0x80 <= x && x <= 0x9F {
			// Replace characters from Windows-1252 with UTF-8 equivalents.
			x = replacementTable[x-0x80]
		} else if x == 0 || (0xD800 <= x && x <= 0xDFFF) || x > 0x10FFFF {
			// Replace invalid characters with the replacement character.
			x = '\uFFFD'
		}

		return dst + utf8.EncodeRune(b[dst:], x), src + i
	}

	// Consume the maximum number of characters possible, with the
	// consumed characters matching one of the named references.

	for i < len(s) {
		c := s[i]
		i++
		// Lower-cased characters are more common in entities, so we check for them first.
		if 'a' <= c && c <= 'z' || 'A' <= c && c <= 'Z' || '0' <= c && c <= '9' {
			continue
		}
		if c != ';' {
			i--
		}
		break
	}

	entityName := string(s[1:i])
	if entityName == "" {
		// No-op.
	} else if attribute && entityName[len(entityName)-1] != ';' && len(s) > i && s[i] == '=' {
		// No-op.
	} else if x := entity[entityName]; x != 0 {
		return dst + utf8.EncodeRune(b[dst:], x), src + i
	} else if x := entity2[entityName]; x[0] != 0 {
		dst1 := dst + utf8.EncodeRune(b[dst:], x[0])
		return dst1 + utf8.EncodeRune(b[dst1:], x[1]), src + i
	} else if !attribute {
		maxLen := len(entityName) - 1
		if maxLen > longestEntityWithoutSemicolon {
			maxLen = longestEntityWithoutSemicolon
		}
		for j := maxLen; j > 1; j-- {
			if x := entity[entityName[:j]]; x != 0 {
				return dst + utf8.EncodeRune(b[dst:], x), src + j + 1
			}
		}
	}

	dst1, src1 = dst+i, src+i
	copy(b[dst:dst1], b[src:src1])
	return dst1, src1
}

// unescape unescapes b's entities in-place, so that "a&lt;b" becomes "a<b".
// attribute should be true if parsing an attribute value.
func unescape(b []byte, attribute bool) []byte {
	for i, c := range b {
		if c == '&' {
			dst, src := unescapeEntity(b, i, i, attribute)
			for src < len(b) {
				c := b[src]
				if c == '&' {
					dst, src = unescapeEntity(b, dst, src, attribute)
				} else {
					b[dst] = c
					dst, src = dst+1, src+1
				}
			}
			return b[0:dst]
		}
	}
	return b
}

// lower lower-cases the A-Z bytes in b in-place, so that "aBc" becomes "abc".
func lower(b []byte) []byte {
	for i, c := range b {
		if 'A' <= c && c <= 'Z' {
			b[i] = c + 'a' - 'A'
		}
	}
	return b
}

// escapeComment is like func escape but escapes its input bytes less often.
// Per https://github.com/golang/go/issues/58246 some HTML comments are (1)
// meaningful and (2) contain angle brackets that we'd like to avoid escaping
// unless we have to.
//
// "We have to" includes the '&' byte, since that introduces other escapes.
//
// It also includes those bytes (not including EOF) that would otherwise end
// the comment. Per the summary table at the bottom of comment_test.go, this is
// the '>' byte that, per above, we'd like to avoid escaping unless we have to.
//
// Studying the summary table (and T actions in its '>' column) closely, we
// only need to escape in states 43, 44, 49, 51 and 52. State 43 is at the
// start of the comment data. State 52 is after a '!'. The other three states
// are after a '-'.
//
// Our algorithm is thus to escape every '&' and to escape '>' if and only if:
//   - The '>' is after a '!' or '-' (in the unescaped data) or
//   - The '>' is at the start of the comment data (after the opening "<!--").
func escapeComment(w writer, s string) error {
	// When modifying this function, consider manually increasing the
	// maxSuffixLen constant in func TestComments, from 6 to e.g. 9 or more.
	// That increase should only be temporary, not committed, as it
	// exponentially affects the test running time.

	if len(s) == 0 {
		return nil
	}

	// Loop:
	//   - Grow j such that s[i:j] does not need escaping.
	//   - If s[j] does need escaping, output s[i:j] and an escaped s[j],
	//     resetting i and j to point past that s[j] byte.
	i := 0
	for j := 0; j < len(s); j++ {
		escaped := ""
		switch s[j] {
		case '&':
			escaped = "&amp;"

		case '>':
			if j > 0 {
				if prev := s[j-1]; (prev != '!') && (prev != '-') {
					continue
				}
			}
			escaped = "&gt;"

		default:
			continue
		}

		if i < j {
			if _, err := w.WriteString(s[i:j]); err != nil {
				return err
			}
		}
		if _, err := w.WriteString(escaped); err != nil {
			return err
		}
		i = j + 1
	}

	if i < len(s) {
		if _, err := w.WriteString(s[i:]); err != nil {
			return err
		}
	}
	return nil
}

// escapeCommentString is to EscapeString as escapeComment is to escape.
func escapeCommentString(s string) string {
	if strings.IndexAny(s, "&>") == -1 {
		return s
	}
	var buf bytes.Buffer
	escapeComment(&buf, s)
	return buf.String()
}

const escapedChars = "&'<>\"\r"

func escape(w writer, s string) error {
	i := strings.IndexAny(s, escapedChars)
	for i != -1 {
		if _, err := w.WriteString(s[:i]); err != nil {
			return err
		}
		var esc string
		switch s[i] {
		case '&':
			esc = "&amp;"
		case '\'':
			// "&#39;" is shorter than "&apos;" and apos was not in HTML until HTML5.
			esc = "&#39;"
		case '<':
			esc = "&lt;"
		case '>':
			esc = "&gt;"
		case '"':
			// "&#34;" is shorter than "&quot;".
			esc = "&#34;"
		case '\r':
			esc = "&#13;"
		default:
			panic("unrecognized escape character")
		}
		s = s[i+1:]
		if _, err := w.WriteString(esc); err != nil {
			return err
		}
		i = strings.IndexAny(s, escapedChars)
	}
	_, err := w.WriteString(s)
	return err
}

// EscapeString escapes special characters like "<" to become "&lt;". It
// escapes only five such characters: <, >, &, ' and ".
// UnescapeString(EscapeString(s)) == s always holds, but the converse isn't
// always true.
func EscapeString(s string) string {
	if strings.IndexAny(s, escapedChars) == -1 {
		return s
	}
	var buf bytes.Buffer
	escape(&buf, s)
	return buf.String()
}

// UnescapeString unescapes entities like "&lt;" to become "<". It unescapes a
// larger range of entities than EscapeString escapes. For example, "&aacute;"
// unescapes to "á", as does "&#225;" and "&xE1;".
// UnescapeString(EscapeString(s)) == s always holds, but the converse isn't
// always true.
func UnescapeString(s string) string {
	for _, c := range s {
		if c == '&' {
			return string(unescape([]byte(s), false))
		}
	}
	return s
}
