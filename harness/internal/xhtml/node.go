// Copyright 2011 The Go Authors. All rights reserved.
// Use of this source code is governed by a BSD-style
// license that can be found in the LICENSE file.

package xhtml

import (
	"verif/harness/internal/xhtml/atom"
)

// A NodeType is the type of a Node.
type NodeType uint32

const (
	ErrorNode NodeType = iota
	TextNode
	DocumentNode
	ElementNode
	CommentNode
	DoctypeNode
	// RawNode nodes are not returned by the parser, but can be part of the
	// Node tree passed to func Render to insert raw HTML (without escaping).
	// If so, this package makes no guarantee that the rendered HTML is secure
	// (from e.g. Cross Site Scripting attacks) or well-formed.
	RawNode
	scopeMarkerNode
)

// Section 12.2.4.3 says "The markers are inserted when entering applet,
// object, marquee, template, td, th, and caption elements, and are used
// to prevent formatting from "leaking" into applet, object, marquee,
// template, td, th, and caption elements".
var scopeMarker = Node{Type: scopeMarkerNode}

// A Node consists of a NodeType and some Data (tag name for element nodes,
// content for text) and are part of a tree of Nodes. Element nodes may also
// have a Namespace and contain a slice of Attributes. Data is unescaped, so
// that it looks like "a<b" rather than "a&lt;b". For element nodes, DataAtom
// is the atom for Data, or zero if Data is not a known tag name.
//
// Node trees may be navigated using the link fields (Parent,
// FirstChild, and so on) or a range loop over iterators such as
// [Node.Descendants].
//
// An empty Namespace implies a "http://www.w3.org/1999/xhtml" namespace.
// Similarly, "math" is short for "http://www.w3.org/1998/Math/MathML", and
// "svg" is short for "http://www.w3.org/2000/svg".
type Node struct {
	Parent, FirstChild, LastChild, PrevSibling, NextSibling *Node

	Type      NodeType
	DataAtom  atom.Atom
	Data      string
	Namespace string
	Attr      []Attribute
}

// InsertBefore inserts newChild as a child of n, immediately before oldChild
// in the sequence of n's children. oldChild may be nil, in which case newChild
// is appended to the end of n's children.
//
// It will panic if newChild already has a parent or siblings.
func (n *Node) InsertBefore(newChild, oldChild *Node) {
	if newChild.Parent != nil || newChild.PrevSibling != nil || newChild.NextSibling != nil {
		panic("html: InsertBefore called for an attached child Node")
	}
	var prev, next *Node
	if oldChild != nil {
		prev, next = oldChild.PrevSibling, oldChild
	} else {
		prev = n.LastChild
	}
	if prev != nil {
		prev.NextSibling = newChild
	} else {
		n.FirstChild = newChild
	}
	if next != nil {
		next.PrevSibling = newChild
	} else {
		n.LastChild = newChild
	}
	newChild.Parent = n
	newChild.PrevSibling = prev
	newChild.NextSibling = next
}

// AppendChild adds a node c as a child of n.
//
// It will panic if c already has a parent or siblings.
func (n *Node) AppendChild(c *Node) {
	if c.Parent != nil || c.PrevSibling != nil || c.NextSibling != nil {
		panic("html: AppendChild called for an attached child Node")
	}
	last := n.LastChild
	if last != nil {
		last.NextSibling = c
	} else {
		n.FirstChild = c
	}
	n.LastChild = c
	c.Parent = n
	c.PrevSibling = last
}

// RemoveChild removes a node c that is a child of n. Afterwards, c will have
// no parent and no siblings.
//
// It will panic if c's parent is not n.
func (n *Node) RemoveChild(c *Node) {
	if c.Parent != n {
		panic("html: RemoveChild called for a non-child Node")
	}
	if n.FirstChild == c {
		n.FirstChild = c.NextSibling
	}
	if c.NextSibling != nil {
		c.NextSibling.PrevSibling = c.PrevSibling
	}
	if n.LastChild == c {
		n.LastChild = c.PrevSibling
	}
	if c.PrevSibling != nil {
		c.PrevSibling.NextSibling = c.NextSibling
	}
	c.Parent = nil
	c.PrevSibling = nil
	c.NextSibling = nil
}

// reparentChildren reparents all of src's child nodes to dst.
func reparentChildren(dst, src *Node) {
	for {
		child := src.FirstChild
		if child == nil {
			break
		}
		src.RemoveChild(child)
		dst.AppendChild(child)
	}
}

// clone returns a new node with the same type, data and attributes.
// The clone has no parent, no siblings and no children.
func (n *Node) clone() *Node {
	m := &Node{
		Type:     n.Type,
		DataAtom: n.DataAtom,
		Data:     n.Data,
		Attr:     make([]Attribute, len(n.Attr)),
	}
	copy(m.Attr, n.Attr)
	return m
}

// nodeStack is a stack of nodes.
type nodeStack []*Node

// pop pops the stack. It will panic if s is empty.
func (s *nodeStack) pop() *Node {
	i := len(*s)
	n := (*s)[i-1]
	*s = (*s)[:i-1]
	return n
}

// top returns the most recently pushed node, or nil if s is empty.
func (s *nodeStack) top() *Node {
	if i := len(*s); i > 0 {
		return (*s)[i-1]
	}
	return nil
}

// index returns the index of the top-most occurrence of n in the stack, or -1
// if n is not present.
func (s *nodeStack) index(n *Node) int {
	for i := len(*s) - 1; i >= 0; i-- {
		if (*s)[i] == n {
			return i
		}
	}
	return -1
}

// contains returns whether a is within s.
func (s *nodeStack) contains(a atom.Atom) bool {
	for _, n := range *s {
		if n.DataAtom == a && n.Namespace == "" {
			return true
		}
	}
	return false
}

// insert inserts a node at the given index.
func (s *nodeStack) insert(i int, n *Node) {
	(*s) = append(*s, nil)
	copy((*s)[i+1:], (*s)[i:])
	(*s)[i] = n
}

// remove removes a node from the stack. It is a no-op if n is not present.
func (s *nodeStack) remove(n *Node) {
	i := s.index(n)
	if i == -1 {
		return
	}
	copy((*s)[i:], (*s)[i+1:])
	j := len(*s) - 1
	(*s)[j] = nil
	*s = (*s)[:j]
}

type insertionModeStack []insertionMode

func (s *insertionModeStack) pop() (im insertionMode) {
	i := len(*s)
	im = (*s)[i-1]
	*s = (*s)[:i-1]
	return im
}

func (s *insertionModeStack) top() insertionMode {
	if i := len(*s); i > 0 {
		return (*s)[i-1]
	}
	return nil
}
