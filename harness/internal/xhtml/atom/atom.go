// Copyright 2012 The Go Authors. All rights reserved.
// Use of this source code is governed by a BSD-style
// license that can be found in the LICENSE file.

// Package atom provides integer codes (also known as atoms) for a fixed set of
// frequently occurring HTML strings: tag names and attribute keys such as "p"
// and "id".
//
// Sharing an atom's name between all elements with the same tag can result in
// fewer string allocations when tokenizing and parsing HTML. Integer
// comparisons are also generally faster than string comparisons.
//
// The value of an atom's particular code is not guaranteed to stay the same
// between versions of this package. Neither is any ordering guaranteed:
// whether atom.H1 < atom.H2 may also change. The codes are not guaranteed to
// be dense. The only guarantees are that e.g. looking up "div" will yield
// atom.Div, calling atom.Div.String will return "div", and atom.Div != 0.
package atom // import "golang.org/x/net/html/atom"

// Atom is an integer code for a string. The zero value maps to "".
type Atom uint32

// String returns the atom's name.
func (a Atom) String() string {
	start := uint32(a >> 8)
	n := uint32(a & 0xff)
	if start+n > uint32(len(atomText)) {
		return ""
	}
	return atomText[start : start+n]
}

func (a Atom) string() string {
	return atomText[a>>8 : a>>8+a&0xff]
}

// fnv computes the FNV hash with an arbitrary starting value h.
func fnv(h uint32, s []byte) uint32 {
	for i := range s {
		h ^= uint32(s[i])
		h *= 16777619
	}
	return h
}

func match(s string, t []byte) bool {
	for i, c := range t {
		if s[i] != c {
			return false
		}
	}
	return true
}

// Lookup returns the atom whose name is s. It returns zero if there is no
// such atom. The lookup is case sensitive.
func Lookup(s []byte) Atom {
	if len(s) == 0 || len(s) > maxAtomLen {
		return 0
	}
	h := fnv(hash0, s)
	if a := table[h&uint32(len(table)-1)]; int(a&0xff) == len(s) && match(a.string(), s) {
		return a
	}
	if a := table[(h>>16)&uint32(len(table)-1)]; int(a&0xff) == len(s) && match(a.string(), s) {
		return a
	}
	return 0
}

// String returns a string whose contents are equal to s. In that sense, it is
// equivalent to string(s) but may be more efficient.
func String(s []byte) string {
	if a := Lookup(s); a != 0 {
		return a.String()
	}
	return string(s)
}
