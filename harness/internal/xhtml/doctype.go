// Copyright 2011 The Go Authors. All rights reserved.
// Use of this source code is governed by a BSD-style
// license that can be found in the LICENSE file.

package xhtml

import (
	"strings"
)

// parseDoctype parses the data from a DoctypeToken into a name,
// public identifier, and system identifier. It returns a Node whose Type
// is DoctypeNode, whose Data is the name, and which has attributes
// named "system" and "public" for the two identifiers if they were present.
// quirks is whether the document should be parsed in "quirks mode".
func parseDoctype(s string) (n *Node, quirks bool) {
	n = &Node{Type: DoctypeNode}

	// Find the name.
	space := strings.IndexAny(s, whitespace)
	if space == -1 {
		space = len(s)
	}
	n.Data = s[:space]
	// The comparison to "html" is case-sensitive.
	if n.Data != "html" {
		quirks = true
	}
	n.Data = strings.ToLower(n.Data)
	s = strings.TrimLeft(s[space:], whitespace)

	if len(s) < 6 {
		// It can't start with "PUBLIC" or "SYSTEM".
		// Ignore the rest of the string.
		return n, quirks || s != ""
	}

	key := strings.ToLower(s[:6])
	s = s[6:]
	for key == "public" || key == "system" {
		s = strings.TrimLeft(s, whitespace)
		if s == "" {
			break
		}
		quote := s[0]
		if quote != '"' && quote != '\'' {
			break
		}
		s = s[1:]
		q := strings.IndexRune(s, rune(quote))
		var id string
		if q == -1 {
			id = s
			s = ""
		} else {
			id = s[:q]
			s = s[q+1:]
		}
		n.Attr = append(n.Attr, Attribute{Key: key, Val: id})
		if key == "public" {
			key = "system"
		} else {
			key = ""
		}
	}

	if key != "" || s != "" {
		quirks = true
	} else if len(n.Attr) > 0 {
		if n.Attr[0].Key == "public" {
			public := strings.ToLower(n.Attr[0].Val)
			switch public {
			case "-//w3o//dtd w3 html strict 3.0//en//", "-/w3d/dtd html 4.0 transitional/en", "html":
				quirks = true
			default:
				for _, q := range quirkyIDs {
					if strings.HasPrefix(public, q) {
						quirks = true
						break
					}
				}
			}
			// The following two public IDs only cause quirks mode if there is no system ID.
			if len(n.Attr) == 1 && (strings.HasPrefix(public, "-//w3c//dtd html 4.01 frameset//") ||
				strings.HasPrefix(public, "-//w3c//dtd html 4.01 transitional//")) {
				quirks = true
			}
		}
		if lastAttr := n.Attr[len(n.Attr)-1]; lastAttr.Key == "system" &&
			strings.EqualFold(lastAttr.Val, "http://www.ibm.com/data/dtd/v11/ibmxhtml1-transitional.dtd") {
			quirks = true
		}
	}

	return n, quirks
}

// quirkyIDs is a list of public doctype identifiers that cause a document
// to be interpreted in quirks mode. The identifiers should be in lower case.
var quirkyIDs = []string{
	"+//silmaril//dtd html pro v0r11 19970101//",
	"-//advasoft ltd//dtd html 3.0 aswedit + extensions//",
	"-//as//dtd html 3.0 aswedit + extensions//",
	"-//ietf//dtd html 2.0 level 1//",
	"-//ietf//dtd html 2.0 level 2//",
	"-//ietf//dtd html 2.0 strict level 1//",
	"-//ietf//dtd html 2.0 strict level 2//",
	"-//ietf//dtd html 2.0 strict//",
	"-//ietf//dtd html 2.0//",
	"-//ietf//dtd html 2.1e//",
	"-//ietf//dtd html 3.0//",
	"-//ietf//dtd html 3.2 final//",
	"-//ietf//dtd html 3.2//",
	"-//ietf//dtd html 3//",
	"-//ietf//dtd html level 0//",
	"-//ietf//dtd html level 1//",
	"-//ietf//dtd html level 2//",
	"-//ietf//dtd html level 3//",
	"-//ietf//dtd html strict level 0//",
	"-//ietf//dtd html strict level 1//",
	"-//ietf//dtd html strict level 2//",
	"-//ietf//dtd html strict level 3//",
	"-//ietf//dtd html strict//",
	"-//ietf//dtd html//",
	"-//metrius//dtd metrius presentational//",
	"-//microsoft//dtd internet explorer 2.0 html strict//",
	"-//microsoft//dtd internet explorer 2.0 html//",
	"-//microsoft//dtd internet explorer 2.0 tables//",
	"-//microsoft//dtd internet explorer 3.0 html strict//",
	"-//microsoft//dtd internet explorer 3.0 html//",
	"-//microsoft//dtd internet explorer 3.0 tables//",
	"-//netscape comm. corp.//dtd html//",
	"-//netscape comm. corp.//dtd strict html//",
	"-//o'reilly and associates//dtd html 2.0//",
	"-//o'reilly and associates//dtd html extended 1.0//",
	"-//o'reilly and associates//dtd html extended relaxed 1.0//",
	"-//softquad software//dtd hotmetal pro 6.0::19990601::extensions to html 4.0//",
	"-//softquad//dtd hotmetal pro 4.0::19971010::extensions to html 4.0//",
	"-//spyglass//dtd html 2.0 extended//",
	"-//sq//dtd html 2.0 hotmetal + extensions//",
	"-//sun microsystems corp.//dtd hotjava html//",
	"-//sun microsystems corp.//dtd hotjava strict html//",
	"-//w3c//dtd html 3 1995-03-24//",
	"-//w3c//dtd html 3.2 draft//",
	"-//w3c//dtd html 3.2 final//",
	"-//w3c//dtd html 3.2//",
	"-//w3c//dtd html 3.2s draft//",
	"-//w3c//dtd html 4.0 frameset//",
	"-//w3c//dtd html 4.0 transitional//",
	"-//w3c//dtd html experimental 19960712//",
	"-//w3c//dtd html experimental 970421//",
	"-//w3c//dtd w3 html//",
	"-//w3o//dtd w3 html 3.0//",
	"-//webtechs//dtd mozilla html 2.0//",
	"-//webtechs//dtd mozilla html//",
}
