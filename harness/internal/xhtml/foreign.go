// Copyright 2011 The Go Authors. All rights reserved.
// Use of this source code is governed by a BSD-style
// license that can be found in the LICENSE file.

package xhtml

import (
	"strings"
)

func adjustAttributeNames(aa []Attribute, nameMap map[string]string) {
	for i := range aa {
		if newName, ok := nameMap[aa[i].Key]; ok {
			aa[i].Key = newName
		}
	}
}

func adjustForeignAttributes(aa []Attribute) {
	for i, a := range aa {
		if a.Key == "" || a.Key[0] != 'x' {
			continue
		}
		switch a.Key {
		case "xlink:actuate", "xlink:arcrole", "xlink:href", "xlink:role", "xlink:show",
			"xlink:title", "xlink:type", "xml:base", "xml:lang", "xml:space", "xmlns:xlink":
			j := strings.Index(a.Key, ":")
			aa[i].Namespace = a.Key[:j]
			aa[i].Key = a.Key[j+1:]
		}
	}
}

func htmlIntegrationPoint(n *Node) bool {
	if n.Type != ElementNode {
		return false
	}
	switch n.Namespace {
	case "math":
		if n.Data == "annotation-xml" {
			for _, a := range n.Attr {
				if a.Key == "encoding" {
					if strings.EqualFold(a.Val, "text/html") || strings.EqualFold(a.Val, "application/xhtml+xml") {
						return true
					}
				}
			}
		}
	case "svg":
		switch n.Data {
		case "desc", "foreignObject", "title":
			return true
		}
	}
	return false
}

func mathMLTextIntegrationPoint(n *Node) bool {
	if n.Namespace != "math" {
		return false
	}
	switch n.Data {
	case "mi", "mo", "mn", "ms", "mtext":
		return true
	}
	return false
}

// Section 12.2.6.5.
var breakout = map[string]bool{
	"b":          true,
	"big":        true,
	"blockquote": true,
	"body":       true,
	"br":         true,
	"center":     true,
	"code":       true,
	"dd":         true,
	"div":        true,
	"dl":         true,
	"dt":         true,
	"em":         true,
	"embed":      true,
	"h1":         true,
	"h2":         true,
	"h3":         true,
	"h4":         true,
	"h5":         true,
	"h6":         true,
	"head":       true,
	"hr":         true,
	"i":          true,
	"img":        true,
	"li":         true,
	"listing":    true,
	"menu":       true,
	"meta":       true,
	"nobr":       true,
	"ol":         true,
	"p":          true,
	"pre":        true,
	"ruby":       true,
	"s":          true,
	"small":      true,
	"span":       true,
	"strong":     true,
	"strike":     true,
	"sub":        true,
	"sup":        true,
	"table":      true,
	"tt":         true,
	"u":          true,
	"ul":         true,
	"var":        true,
}

// Section 12.2.6.5.
var svgTagNameAdjustments = map[string]string{
	"altglyph":            "altGlyph",
	"altglyphdef":         "altGlyphDef",
	"altglyphitem":        "altGlyphItem",
	"animatecolor":        "animateColor",
	"animatemotion":       "animateMotion",
	"animatetransform":    "animateTransform",
	"clippath":            "clipPath",
	"feblend":             "feBlend",
	"fecolormatrix":       "feColorMatrix",
	"fecomponenttransfer": "feComponentTransfer",
	"fecomposite":         "feComposite",
	"feconvolvematrix":    "feConvolveMatrix",
	"fediffuselighting":   "feDiffuseLighting",
	"fedisplacementmap":   "feDisplacementMap",
	"fedistantlight":      "feDistantLight",
	"feflood":             "feFlood",
	"fefunca":             "feFuncA",
	"fefuncb":             "feFuncB",
	"fefuncg":             "feFuncG",
	"fefuncr":             "feFuncR",
	"fegaussianblur":      "feGaussianBlur",
	"feimage":             "feImage",
	"femerge":             "feMerge",
	"femergenode":         "feMergeNode",
	"femorphology":        "feMorphology",
	"feoffset":            "feOffset",
	"fepointlight":        "fePointLight",
	"fespecularlighting":  "feSpecularLighting",
	"fespotlight":         "feSpotLight",
	"fetile":              "feTile",
	"feturbulence":        "feTurbulence",
	"foreignobject":       "foreignObject",
	"glyphref":            "glyphRef",
	"lineargradient":      "linearGradient",
	"radialgradient":      "radialGradient",
	"textpath":            "textPath",
}

// Section 12.2.6.1
var mathMLAttributeAdjustments = map[string]string{
	"definitionurl": "definitionURL",
}

var svgAttributeAdjustments = map[string]string{
	"attributename":       "attributeName",
	"attributetype":       "attributeType",
	"basefrequency":       "baseFrequency",
	"baseprofile":         "baseProfile",
	"calcmode":            "calcMode",
	"clippathunits":       "clipPathUnits",
	"diffuseconstant":     "diffuseConstant",
	"edgemode":            "edgeMode",
	"filterunits":         "filterUnits",
	"glyphref":            "glyphRef",
	"gradienttransform":   "gradientTransform",
	"gradientunits":       "gradientUnits",
	"kernelmatrix":        "kernelMatrix",
	"kernelunitlength":    "kernelUnitLength",
	"keypoints":           "keyPoints",
	"keysplines":          "keySplines",
	"keytimes":            "keyTimes",
	"lengthadjust":        "lengthAdjust",
	"limitingconeangle":   "limitingConeAngle",
	"markerheight":        "markerHeight",
	"markerunits":         "markerUnits",
	"markerwidth":         "markerWidth",
	"maskcontentunits":    "maskContentUnits",
	"maskunits":           "maskUnits",
	"numoctaves":          "numOctaves",
	"pathlength":          "pathLength",
	"patterncontentunits": "patternContentUnits",
	"patterntransform":    "patternTransform",
	"patternunits":        "patternUnits",
	"pointsatx":           "pointsAtX",
	"pointsaty":           "pointsAtY",
	"pointsatz":           "pointsAtZ",
	"preservealpha":       "preserveAlpha",
	"preserveaspectratio": "preserveAspectRatio",
	"primitiveunits":      "primitiveUnits",
	"refx":                "refX",
	"refy":                "refY",
	"repeatcount":         "repeatCount",
	"repeatdur":           "repeatDur",
	"requiredextensions":  "requiredExtensions",
	"requiredfeatures":    "requiredFeatures",
	"specularconstant":    "specularConstant",
	"specularexponent":    "specularExponent",
	"spreadmethod":        "spreadMethod",
	"startoffset":         "startOffset",
	"stddeviation":        "stdDeviation",
	"stitchtiles":         "stitchTiles",
	"surfacescale":        "surfaceScale",
	"systemlanguage":      "systemLanguage",
	"tablevalues":         "tableValues",
	"targetx":             "targetX",
	"targety":             "targetY",
	"textlength":          "textLength",
	"viewbox":             "viewBox",
	"viewtarget":          "viewTarget",
	"xchannelselector":    "xChannelSelector",
	"ychannelselector":    "yChannelSelector",
	"zoomandpan":          "zoomAndPan",
}
