// Copyright 2010 The Go Authors. All rights reserved.
// Use of this source code is governed by a BSD-style
// license that can be found in the LICENSE file.

package xhtml

import (
	"bytes"
	"errors"
	"io"
	"strconv"
	"strings"

	"verif/harness/internal/xhtml/atom"
)

// A TokenType is the type of a Token.
type TokenType uint32

const (
	// ErrorToken means that an error occurred during tokenization.
	ErrorToken TokenType = iota
	// TextToken means a text node.
	TextToken
	// A StartTagToken looks like <a>.
	StartTagToken
	// An EndTagToken looks like </a>.
	EndTagToken
	// A SelfClosingTagToken tag looks like <br/>.
	SelfClosingTagToken
	// A CommentToken looks like <!--x-->.
	CommentToken
	// A DoctypeToken looks like <!DOCTYPE x>
	DoctypeToken
)

// ErrBufferExceeded means that the buffering limit was exceeded.
var ErrBufferExceeded = errors.New("max buffer exceeded")

// String returns a string representation of the TokenType.
func (t TokenType) String() string {
	switch t {
	case ErrorToken:
		return "Error"
	case TextToken:
		return "Text"
	case StartTagToken:
		return "StartTag"
	case EndTagToken:
		return "EndTag"
	case SelfClosingTagToken:
		return "SelfClosingTag"
	case CommentToken:
		return "Comment"
	case DoctypeToken:
		return "Doctype"
	}
	return "Invalid(" + strconv.Itoa(int(t)) + ")"
}

// An Attribute is an attribute namespace-key-value triple. Namespace is
// non-empty for foreign attributes like xlink, Key is alphabetic (and hence
// does not contain escapable characters like '&', '<' or '>'), and Val is
// unescaped (it looks like "a<b" rather than "a&lt;b").
//
// Namespace is only used by the parser, not the tokenizer.
type Attribute struct {
	Namespace, Key, Val string
}

// A Token consists of a TokenType and some Data (tag name for start and end
// tags, content for text, comments and doctypes). A tag Token may also contain
// a slice of Attributes. Data is unescaped for all Tokens (it looks like "a<b"
// rather than "a&lt;b"). For tag Tokens, DataAtom is the atom for Data, or
// zero if Data is not a known tag name.
type Token struct {
	Type     TokenType
	DataAtom atom.Atom
	Data     string
	Attr     []Attribute
}

// tagString returns a string representation of a tag Token's Data and Attr.
func (t Token) tagString() string {
	if len(t.Attr) == 0 {
		return t.Data
	}
	buf := bytes.NewBufferString(t.Data)
	for _, a := range t.Attr {
		buf.WriteByte(' ')
		buf.WriteString(a.Key)
		buf.WriteString(`="`)
		escape(buf, a.Val)
		buf.WriteByte('"')
	}
	return buf.String()
}

// String returns a string representation of the Token.
func (t Token) String() string {
	switch t.Type {
	case ErrorToken:
		return ""
	case TextToken:
		return EscapeString(t.Data)
	case StartTagToken:
		return "<" + t.tagString() + ">"
	case EndTagToken:
		return "</" + t.tagString() + ">"
	case SelfClosingTagToken:
		return "<" + t.tagString() + "/>"
	case CommentToken:
		return "<!--" + escapeCommentString(t.Data) + "-->"
	case DoctypeToken:
		return "<!DOCTYPE " + EscapeString(t.Data) + ">"
	}
	return "Invalid(" + strconv.Itoa(int(t.Type)) + ")"
}

// span is a range of bytes in a Tokenizer's buffer. The start is inclusive,
// the end is exclusive.
type span struct {
	start, end int
}

// A Tokenizer returns a stream of HTML Tokens.
type Tokenizer struct {
	// r is the source of the HTML text.
	r io.Reader
	// tt is the TokenType of the current token.
	tt TokenType
	// err is the first error encountered during tokenization. It is possible
	// for tt != Error && err != nil to hold: this means that Next returned a
	// valid token but the subsequent Next call will return an error token.
	// For example, if the HTML text input was just "plain", then the first
	// Next call would set z.err to io.EOF but return a TextToken, and all
	// subsequent Next calls would return an ErrorToken.
	// err is never reset. Once it becomes non-nil, it stays non-nil.
	err error
	// readErr is the error returned by the io.Reader r. It is separate from
	// err because it is valid for an io.Reader to return (n int, err1 error)
	// such that n > 0 && err1 != nil, and callers should always process the
	// n > 0 bytes before considering the error err1.
	readErr error
	// buf[raw.start:raw.end] holds the raw bytes of the current token.
	// buf[raw.end:] is buffered input that will yield future tokens.
	raw span
	buf []byte
	// maxBuf limits the data buffered in buf. A value of 0 means unlimited.
	maxBuf int
	// buf[data.start:data.end] holds the raw bytes of the current token's data:
	// a text token's text, a tag token's tag name, etc.
	data span
	// pendingAttr is the attribute key and value currently being tokenized.
	// When complete, pendingAttr is pushed onto attr. nAttrReturned is
	// incremented on each call to TagAttr.
	pendingAttr   [2]span
	attr          [][2]span
	nAttrReturned int
	// rawTag is the "script" in "</script>" that closes the next token. If
	// non-empty, the subsequent call to Next will return a raw or RCDATA text
	// token: one that treats "<p>" as text instead of an element.
	// rawTag's contents are lower-cased.
	rawTag string
	// textIsRaw is whether the current text token's data is not escaped.
	textIsRaw bool
	// convertNUL is whether NUL bytes in the current token's data should
	// be converted into \ufffd replacement characters.
	convertNUL bool
	// allowCDATA is whether CDATA sections are allowed in the current context.
	allowCDATA bool
}

// AllowCDATA sets whether or not the tokenizer recognizes <![CDATA[foo]]> as
// the text "foo". The default value is false, which means to recognize it as
// a bogus comment "<!-- [CDATA[foo]] -->" instead.
//
// Strictly speaking, an HTML5 compliant tokenizer should allow CDATA if and
// only if tokenizing foreign content, such as MathML and SVG. However,
// tracking foreign-contentness is difficult to do purely in the tokenizer,
// as opposed to the parser, due to HTML integration points: an <svg> element
// can contain a <foreignObject> that is foreign-to-SVG but not foreign-to-
// HTML. For strict compliance with the HTML5 tokenization algorithm, it is the
// responsibility of the user of a tokenizer to call AllowCDATA as appropriate.
// In practice, if using the tokenizer without caring whether MathML or SVG
// CDATA is text or comments, such as tokenizing HTML to find all the anchor
// text, it is acceptable to ignore this responsibility.
func (z *Tokenizer) AllowCDATA(allowCDATA bool) {
	z.allowCDATA = allowCDATA
}

// NextIsNotRawText instructs the tokenizer that the next token should not be
// considered as 'raw text'. Some elements, such as script and title elements,
// normally require the next token after the opening tag to be 'raw text' that
// has no child elements. For example, tokenizing "<title>a<b>c</b>d</title>"
// yields a start tag token for "<title>", a text token for "a<b>c</b>d", and
// an end tag token for "</title>". There are no distinct start tag or end tag
// tokens for the "<b>" and "</b>".
//
// This tokenizer implementation will generally look for raw text at the right
// times. Strictly speaking, an HTML5 compliant tokenizer should not look for
// raw text if in foreign content: <title> generally needs raw text, but a
// <title> inside an <svg> does not. Another example is that a <textarea>
// generally needs raw text, but a <textarea> is not allowed as an immediate
// child of a <select>; in normal parsing, a <textarea> implies </select>, but
// one cannot close the implicit element when parsing a <select>'s InnerHTML.
// Similarly to AllowCDATA, tracking the correct moment to override raw-text-
// ness is difficult to do purely in the tokenizer, as opposed to the parser.
// For strict compliance with the HTML5 tokenization algorithm, it is the
// responsibility of the user of a tokenizer to call NextIsNotRawText as
// appropriate. In practice, like AllowCDATA, it is acceptable to ignore this
// responsibility for basic usage.
//
// Note that this 'raw text' concept is different from the one offered by the
// Tokenizer.Raw method.
func (z *Tokenizer) NextIsNotRawText() {
	z.rawTag = ""
}

// Err returns the error associated with the most recent ErrorToken token.
// This is typically io.EOF, meaning the end of tokenization.
func (z *Tokenizer) Err() error {
	if z.tt != ErrorToken {
		return nil
	}
	return z.err
}

// readByte returns the next byte from the input stream, doing a buffered read
// from z.r into z.buf if necessary. z.buf[z.raw.start:z.raw.end] remains a contiguous byte
// slice that holds all the bytes read so far for the current token.
// It sets z.err if the underlying reader returns an error.
// Pre-condition: z.err == nil.
func (z *Tokenizer) readByte() byte {
	if z.raw.end >= len(z.buf) {
		// Our buffer is exhausted and we have to read from z.r. Check if the
		// previous read resulted in an error.
		if z.readErr != nil {
			z.err = z.readErr
			return 0
		}
		// We copy z.buf[z.raw.start:z.raw.end] to the beginning of z.buf. If the length
		// z.raw.end - z.raw.start is more than half the capacity of z.buf, then we
		// allocate a new buffer before the copy.
		c := cap(z.buf)
		d := z.raw.end - z.raw.start
		var buf1 []byte
		if 2*d > c {
			buf1 = make([]byte, d, 2*c)
		} else {
			buf1 = z.buf[:d]
		}
		copy(buf1, z.buf[z.raw.start:z.raw.end])
		if x := z.raw.start; x != 0 {
			// Adjust the data/attr spans to refer to the same contents after the copy.
			z.data.start -= x
			z.data.end -= x
			z.pendingAttr[0].start -= x
			z.pendingAttr[0].end -= x
			z.pendingAttr[1].start -= x
			z.pendingAttr[1].end -= x
			for i := range z.attr {
				z.attr[i][0].start -= x
				z.attr[i][0].end -= x
				z.attr[i][1].start -= x
				z.attr[i][1].end -= x
			}
		}
		z.raw.start, z.raw.end, z.buf = 0, d, buf1[:d]
		// Now that we have copied the live bytes to the start of the buffer,
		// we read from z.r into the remainder.
		var n int
		n, z.readErr = readAtLeastOneByte(z.r, buf1[d:cap(buf1)])
		if n == 0 {
			z.err = z.readErr
			return 0
		}
		z.buf = buf1[:d+n]
	}
	x := z.buf[z.raw.end]
	z.raw.end++
	if z.maxBuf > 0 && z.raw.end-z.raw.start >= z.maxBuf {
		z.err = ErrBufferExceeded
		return 0
	}
	return x
}

// Buffered returns a slice containing data buffered but not yet tokenized.
func (z *Tokenizer) Buffered() []byte {
	return z.buf[z.raw.end:]
}

// readAtLeastOneByte wraps an io.Reader so that reading cannot return (0, nil).
// It returns io.ErrNoProgress if the underlying r.Read method returns (0, nil)
// too many times in succession.
func readAtLeastOneByte(r io.Reader, b []byte) (int, error) {
	for i := 0; i < 100; i++ {
		if n, err := r.Read(b); n != 0 || err != nil {
			return n, err
		}
	}
	return 0, io.ErrNoProgress
}

// skipWhiteSpace skips past any white space.
func (z *Tokenizer) skipWhiteSpace() {
	if z.err != nil {
		return
	}
	for {
		c := z.readByte()
		if z.err != nil {
			return
		}
		switch c {
		case ' ', '\n', '\r', '\t', '\f':
			// No-op.
		default:
			z.raw.end--
			return
		}
	}
}

// readRawOrRCDATA reads until the next "</foo>", where "foo" is z.rawTag and
// is typically something like "script" or "textarea".
func (z *Tokenizer) readRawOrRCDATA() {
	if z.rawTag == "script" {
		z.readScript()
		z.textIsRaw = true
		z.rawTag = ""
		return
	}
loop:
	for {
		c := z.readByte()
		if z.err != nil {
			break loop
		}
		if c != '<' {
			continue loop
		}
		c = z.readByte()
		if z.err != nil {
			break loop
		}
		if c != '/' {
			z.raw.end--
			continue loop
		}
		if z.readRawEndTag() || z.err != nil {
			break loop
		}
	}
	z.data.end = z.raw.end
	// A textarea's or title's RCDATA can contain escaped entities.
	z.textIsRaw = z.rawTag != "textarea" && z.rawTag != "title"
	z.rawTag = ""
}

// readRawEndTag attempts to read a tag like "</foo>", where "foo" is z.rawTag.
// If it succeeds, it backs up the input position to reconsume the tag and
// returns true. Otherwise it returns false. The opening "</" has already been
// consumed.
func (z *Tokenizer) readRawEndTag() bool {
	for i := 0; i < len(z.rawTag); i++ {
		c := z.readByte()
		if z.err != nil {
			return false
		}
		if c != z.rawTag[i] && c != z.rawTag[i]-('a'-'A') {
			z.raw.end--
			return false
		}
	}
	c := z.readByte()
	if z.err != nil {
		return false
	}
	switch c {
	case ' ', '\n', '\r', '\t', '\f', '/', '>':
		// The 3 is 2 for the leading "</" plus 1 for the trailing character c.
		z.raw.end -= 3 + len(z.rawTag)
		return true
	}
	z.raw.end--
	return false
}

// readScript reads until the next </script> tag, following the byzantine
// rules for escaping/hiding the closing tag.
func (z *Tokenizer) readScript() {
	defer func() {
		z.data.end = z.raw.end
	}()
	var c byte

scriptData:
	c = z.readByte()
	if z.err != nil {
		return
	}
	if c == '<' {
		goto scriptDataLessThanSign
	}
	goto scriptData

scriptDataLessThanSign:
	c = z.readByte()
	if z.err != nil {
		return
	}
	switch c {
	case '/':
		goto scriptDataEndTagOpen
	case '!':
		goto scriptDataEscapeStart
	}
	z.raw.end--
	goto scriptData

scriptDataEndTagOpen:
	if z.readRawEndTag() || z.err != nil {
		return
	}
	goto scriptData

scriptDataEscapeStart:
	c = z.readByte()
	if z.err != nil {
		return
	}
	if c == '-' {
		goto scriptDataEscapeStartDash
	}
	z.raw.end--
	goto scriptData

scriptDataEscapeStartDash:
	c = z.readByte()
	if z.err != nil {
		return
	}
	if c == '-' {
		goto scriptDataEscapedDashDash
	}
	z.raw.end--
	goto scriptData

scriptDataEscaped:
	c = z.readByte()
	if z.err != nil {
		return
	}
	switch c {
	case '-':
		goto scriptDataEscapedDash
	case '<':
		goto scriptDataEscapedLessThanSign
	}
	goto scriptDataEscaped

scriptDataEscapedDash:
	c = z.readByte()
	if z.err != nil {
		return
	}
	switch c {
	case '-':
		goto scriptDataEscapedDashDash
	case '<':
		goto scriptDataEscapedLessThanSign
	}
	goto scriptDataEscaped

scriptDataEscapedDashDash:
	c = z.readByte()
	if z.err != nil {
		return
	}
	switch c {
	case '-':
		goto scriptDataEscapedDashDash
	case '<':
		goto scriptDataEscapedLessThanSign
	case '>':
		goto scriptData
	}
	goto scriptDataEscaped

scriptDataEscapedLessThanSign:
	c = z.readByte()
	if z.err != nil {
		return
	}
	if c == '/' {
		goto scriptDataEscapedEndTagOpen
	}
	if 'a' <= c && c <= 'z' || 'A' <= c && c <= 'Z' {
		goto scriptDataDoubleEscapeStart
	}
	z.raw.end--
	goto scriptData

scriptDataEscapedEndTagOpen:
	if z.readRawEndTag() || z.err != nil {
		return
	}
	goto scriptDataEscaped

scriptDataDoubleEscapeStart:
	z.raw.end--
	for i := 0; i < len("script"); i++ {
		c = z.readByte()
		if z.err != nil {
			return
		}
		if c != "script"[i] && c != "SCRIPT"[i] {
			z.raw.end--
			goto scriptDataEscaped
		}
	}
	c = z.readByte()
	if z.err != nil {
		return
	}
	switch c {
	case ' ', '\n', '\r', '\t', '\f', '/', '>':
		goto scriptDataDoubleEscaped
	}
	z.raw.end--
	goto scriptDataEscaped

scriptDataDoubleEscaped:
	c = z.readByte()
	if z.err != nil {
		return
	}
	switch c {
	case '-':
		goto scriptDataDoubleEscapedDash
	case '<':
		goto scriptDataDoubleEscapedLessThanSign
	}
	goto scriptDataDoubleEscaped

scriptDataDoubleEscapedDash:
	c = z.readByte()
	if z.err != nil {
		return
	}
	switch c {
	case '-':
		goto scriptDataDoubleEscapedDashDash
	case '<':
		goto scriptDataDoubleEscapedLessThanSign
	}
	goto scriptDataDoubleEscaped

scriptDataDoubleEscapedDashDash:
	c = z.readByte()
	if z.err != nil {
		return
	}
	switch c {
	case '-':
		goto scriptDataDoubleEscapedDashDash
	case '<':
		goto scriptDataDoubleEscapedLessThanSign
	case '>':
		goto scriptData
	}
	goto scriptDataDoubleEscaped

scriptDataDoubleEscapedLessThanSign:
	c = z.readByte()
	if z.err != nil {
		return
	}
	if c == '/' {
		goto scriptDataDoubleEscapeEnd
	}
	z.raw.end--
	goto scriptDataDoubleEscaped

scriptDataDoubleEscapeEnd:
	if z.readRawEndTag() {
		z.raw.end += len("</script>")
		goto scriptDataEscaped
	}
	if z.err != nil {
		return
	}
	goto scriptDataDoubleEscaped
}

// readComment reads the next comment token starting with "<!--". The opening
// "<!--" has already been consumed.
func (z *Tokenizer) readComment() {
	// When modifying this function, consider manually increasing the
	// maxSuffixLen constant in func TestComments, from 6 to e.g. 9 or more.
	// That increase should only be temporary, not committed, as it
	// exponentially affects the test running time.

	z.data.start = z.raw.end
	defer func() {
		if z.data.end < z.data.start {
			// It's a comment with no data, like <!-->.
			z.data.end = z.data.start
		}
	}()

	var dashCount int
	beginning := true
	for {
		c := z.readByte()
		if z.err != nil {
			z.data.end = z.calculateAbruptCommentDataEnd()
			return
		}
		switch c {
		case '-':
			dashCount++
			continue
		case '>':
			if dashCount >= 2 || beginning {
				z.data.end = z.raw.end - len("-->")
				return
			}
		case '!':
			if dashCount >= 2 {
				c = z.readByte()
				if z.err != nil {
					z.data.end = z.calculateAbruptCommentDataEnd()
					return
				} else if c == '>' {
					z.data.end = z.raw.end - len("--!>")
					return
				} else if c == '-' {
					dashCount = 1
					beginning = false
					continue
				}
			}
		}
		dashCount = 0
		beginning = false
	}
}

func (z *Tokenizer) calculateAbruptCommentDataEnd() int {
	raw := z.Raw()
	const prefixLen = len("<!--")
	if len(raw) >= prefixLen {
		raw = raw[prefixLen:]
		if hasSuffix(raw, "--!") {
			return z.raw.end - 3
		} else if hasSuffix(raw, "--") {
			return z.raw.end - 2
		} else if hasSuffix(raw, "-") {
			return z.raw.end - 1
		}
	}
	return z.raw.end
}

func hasSuffix(b []byte, suffix string) bool {
	if len(b) < len(suffix) {
		return false
	}
	b = b[len(b)-len(suffix):]
	for i := range b {
		if b[i] != suffix[i] {
			return false
		}
	}
	return true
}

// readUntilCloseAngle reads until the next ">".
func (z *Tokenizer) readUntilCloseAngle() {
	z.data.start = z.raw.end
	for {
		c := z.readByte()
		if z.err != nil {
			z.data.end = z.raw.end
			return
		}
		if c == '>' {
			z.data.end = z.raw.end - len(">")
			return
		}
	}
}

// readMarkupDeclaration reads the next token starting with "<!". It might be
// a "<!--comment-->", a "<!DOCTYPE foo>", a "<![CDATA[section]]>" or
// "<!a bogus comment". The opening "<!" has already been consumed.
func (z *Tokenizer) readMarkupDeclaration() TokenType {
	z.data.start = z.raw.end
	var c [2]byte
	for i := 0; i < 2; i++ {
		c[i] = z.readByte()
		if z.err != nil {
			z.data.end = z.raw.end
			return CommentToken
		}
	}
	if c[0] == '-' && c[1] == '-' {
		z.readComment()
		return CommentToken
	}
	z.raw.end -= 2
	if z.readDoctype() {
		return DoctypeToken
	}
	if z.allowCDATA && z.readCDATA() {
		z.convertNUL = true
		return TextToken
	}
	// It's a bogus comment.
	z.readUntilCloseAngle()
	return CommentToken
}

// readDoctype attempts to read a doctype declaration and returns true if
// successful. The opening "<!" has already been consumed.
func (z *Tokenizer) readDoctype() bool {
	const s = "DOCTYPE"
	for i := 0; i < len(s); i++ {
		c := z.readByte()
		if z.err != nil {
			z.data.end = z.raw.end
			return false
		}
		if c != s[i] && c != s[i]+('a'-'A') {
			// Back up to read the fragment of "DOCTYPE" again.
			z.raw.end = z.data.start
			return false
		}
	}
	if z.skipWhiteSpace(); z.err != nil {
		z.data.start = z.raw.end
		z.data.end = z.raw.end
		return true
	}
	z.readUntilCloseAngle()
	return true
}

// readCDATA attempts to read a CDATA section and returns true if
// successful. The opening "<!" has already been consumed.
func (z *Tokenizer) readCDATA() bool {
	const s = "[CDATA["
	for i := 0; i < len(s); i++ {
		c := z.readByte()
		if z.err != nil {
			z.data.end = z.raw.end
			return false
		}
		if c != s[i] {
			// Back up to read the fragment of "[CDATA[" again.
			z.raw.end = z.data.start
			return false
		}
	}
	z.data.start = z.raw.end
	brackets := 0
	for {
		c := z.readByte()
		if z.err != nil {
			z.data.end = z.raw.end
			return true
		}
		switch c {
		case ']':
			brackets++
		case '>':
			if brackets >= 2 {
				z.data.end = z.raw.end - len("]]>")
				return true
			}
			brackets = 0
		default:
			brackets = 0
		}
	}
}

// startTagIn returns whether the start tag in z.buf[z.data.start:z.data.end]
// case-insensitively matches any element of ss.
func (z *Tokenizer) startTagIn(ss ...string) bool {
loop:
	for _, s := range ss {
		if z.data.end-z.data.start != len(s) {
			continue loop
		}
		for i := 0; i < len(s); i++ {
			c := z.buf[z.data.start+i]
			if 'A' <= c && c <= 'Z' {
				c += 'a' - 'A'
			}
			if c != s[i] {
				continue loop
			}
		}
		return true
	}
	return false
}

// readStartTag reads the next start tag token. The opening "<a" has already
// been consumed, where 'a' means anything in [A-Za-z].
func (z *Tokenizer) readStartTag() TokenType {
	z.readTag(true)
	if z.err != nil {
		return ErrorToken
	}
	// Several tags flag the tokenizer's next token as raw.
	c, raw := z.buf[z.data.start], false
	if 'A' <= c && c <= 'Z' {
		c += 'a' - 'A'
	}
	switch c {
	case 'i':
		raw = z.startTagIn("iframe")
	case 'n':
		raw = z.startTagIn("noembed", "noframes", "noscript")
	case 'p':
		raw = z.startTagIn("plaintext")
	case 's':
		raw = z.startTagIn("script", "style")
	case 't':
		raw = z.startTagIn("textarea", "title")
	case 'x':
		raw = z.startTagIn("xmp")
	}
	if raw {
		z.rawTag = strings.ToLower(string(z.buf[z.data.start:z.data.end]))
	}
	// Look for a self-closing token like "<br/>".
	if z.err == nil && z.buf[z.raw.end-2] == '/' {
		return SelfClosingTagToken
	}
	return StartTagToken
}

// readTag reads the next tag token and its attributes. If saveAttr, those
// attributes are saved in z.attr, otherwise z.attr is set to an empty slice.
// The opening "<a" or "</a" has already been consumed, where 'a' means anything
// in [A-Za-z].
func (z *Tokenizer) readTag(saveAttr bool) {
	z.attr = z.attr[:0]
	z.nAttrReturned = 0
	// Read the tag name and attribute key/value pairs.
	z.readTagName()
	if z.skipWhiteSpace(); z.err != nil {
		return
	}
	for {
		c := z.readByte()
		if z.err != nil || c == '>' {
			break
		}
		z.raw.end--
		z.readTagAttrKey()
		z.readTagAttrVal()
		// Save pendingAttr if saveAttr and that attribute has a non-empty key.
		if saveAttr && z.pendingAttr[0].start != z.pendingAttr[0].end {
			z.attr = append(z.attr, z.pendingAttr)
		}
		if z.skipWhiteSpace(); z.err != nil {
			break
		}
	}
}

// readTagName sets z.data to the "div" in "<div k=v>". The reader (z.raw.end)
// is positioned such that the first byte of the tag name (the "d" in "<div")
// has already been consumed.
func (z *Tokenizer) readTagName() {
	z.data.start = z.raw.end - 1
	for {
		c := z.readByte()
		if z.err != nil {
			z.data.end = z.raw.end
			return
		}
		switch c {
		case ' ', '\n', '\r', '\t', '\f':
			z.data.end = z.raw.end - 1
			return
		case '/', '>':
			z.raw.end--
			z.data.end = z.raw.end
			return
		}
	}
}

// readTagAttrKey sets z.pendingAttr[0] to the "k" in "<div k=v>".
// Precondition: z.err == nil.
func (z *Tokenizer) readTagAttrKey() {
	z.pendingAttr[0].start = z.raw.end
	for {
		c := z.readByte()
		if z.err != nil {
			z.pendingAttr[0].end = z.raw.end
			return
		}
		switch c {
		case '=':
			if z.pendingAttr[0].start+1 == z.raw.end {
				// WHATWG 13.2.5.32, if we see an equals sign before the attribute name
				// begins, we treat it as a character in the attribute name and continue.
				continue
			}
			fallthrough
		case ' ', '\n', '\r', '\t', '\f', '/', '>':
			// WHATWG 13.2.5.33 Attribute name state
			// We need to reconsume the char in the after attribute name state to support the / character
			z.raw.end--
			z.pendingAttr[0].end = z.raw.end
			return
		}
	}
}

// readTagAttrVal sets z.pendingAttr[1] to the "v" in "<div k=v>".
func (z *Tokenizer) readTagAttrVal() {
	z.pendingAttr[1].start = z.raw.end
	z.pendingAttr[1].end = z.raw.end
	if z.skipWhiteSpace(); z.err != nil {
		return
	}
	c := z.readByte()
	if z.err != nil {
		return
	}
	if c == '/' {
		// WHATWG 13.2.5.34 After attribute name state
		// U+002F SOLIDUS (/) - Switch to the self-closing start tag state.
		return
	}
	if c != '=' {
		z.raw.end--
		return
	}
	if z.skipWhiteSpace(); z.err != nil {
		return
	}
	quote := z.readByte()
	if z.err != nil {
		return
	}
	switch quote {
	case '>':
		z.raw.end--
		return

	case '\'', '"':
		z.pendingAttr[1].start = z.raw.end
		for {
			c := z.readByte()
			if z.err != nil {
				z.pendingAttr[1].end = z.raw.end
				return
			}
			if c == quote {
				z.pendingAttr[1].end = z.raw.end - 1
				return
			}
		}

	default:
		z.pendingAttr[1].start = z.raw.end - 1
		for {
			c := z.readByte()
			if z.err != nil {
				z.pendingAttr[1].end = z.raw.end
				return
			}
			switch c {
			case ' ', '\n', '\r', '\t', '\f':
				z.pendingAttr[1].end = z.raw.end - 1
				return
			case '>':
				z.raw.end--
				z.pendingAttr[1].end = z.raw.end
				return
			}
		}
	}
}

// Next scans the next token and returns its type.
func (z *Tokenizer) Next() TokenType {
	z.raw.start = z.raw.end
	z.data.start = z.raw.end
	z.data.end = z.raw.end
	if z.err != nil {
		z.tt = ErrorToken
		return z.tt
	}
	if z.rawTag != "" {
		if z.rawTag == "plaintext" {
			// Read everything up to EOF.
			for z.err == nil {
				z.readByte()
			}
			z.data.end = z.raw.end
			z.textIsRaw = true
		} else {
			z.readRawOrRCDATA()
		}
		if z.data.end > z.data.start {
			z.tt = TextToken
			z.convertNUL = true
			return z.tt
		}
	}
	z.textIsRaw = false
	z.convertNUL = false

loop:
	for {
		c := z.readByte()
		if z.err != nil {
			break loop
		}
		if c != '<' {
			continue loop
		}

		// Check if the '<' we have just read is part of a tag, comment
		// or doctype. If not, it's part of the accumulated text token.
		c = z.readByte()
		if z.err != nil {
			break loop
		}
		var tokenType TokenType
		switch {
		case 'a' <= c && c <= 'z' || 'A' <= c && c <= 'Z':
			tokenType = StartTagToken
		case c == '/':
			tokenType = EndTagToken
		case c == '!' || c == '?':
			// We use CommentToken to mean any of "<!--actual comments-->",
			// "<!DOCTYPE declarations>" and "<?xml processing instructions?>".
			tokenType = CommentToken
		default:
			// Reconsume the current character.
			z.raw.end--
			continue
		}

		// We have a non-text token, but we might have accumulated some text
		// before that. If so, we return the text first, and return the non-
		// text token on the subsequent call to Next.
		if x := z.raw.end - len("<a"); z.raw.start < x {
			z.raw.end = x
			z.data.end = x
			z.tt = TextToken
			return z.tt
		}
		switch tokenType {
		case StartTagToken:
			z.tt = z.readStartTag()
			return z.tt
		case EndTagToken:
			c = z.readByte()
			if z.err != nil {
				break loop
			}
			if c == '>' {
				// "</>" does not generate a token at all. Generate an empty comment
				// to allow passthrough clients to pick up the data using Raw.
				// Reset the tokenizer state and start again.
				z.tt = CommentToken
				return z.tt
			}
			if 'a' <= c && c <= 'z' || 'A' <= c && c <= 'Z' {
				z.readTag(false)
				if z.err != nil {
					z.tt = ErrorToken
				} else {
					z.tt = EndTagToken
				}
				return z.tt
			}
			z.raw.end--
			z.readUntilCloseAngle()
			z.tt = CommentToken
			return z.tt
		case CommentToken:
			if c == '!' {
				z.tt = z.readMarkupDeclaration()
				return z.tt
			}
			z.raw.end--
			z.readUntilCloseAngle()
			z.tt = CommentToken
			return z.tt
		}
	}
	if z.raw.start < z.raw.end {
		z.data.end = z.raw.end
		z.tt = TextToken
		return z.tt
	}
	z.tt = ErrorToken
	return z.tt
}

// Raw returns the unmodified text of the current token. Calling Next, Token,
// Text, TagName or TagAttr may change the contents of the returned slice.
//
// The token stream's raw bytes partition the byte stream (up until an
// ErrorToken). There are no overlaps or gaps between two consecutive token's
// raw bytes. One implication is that the byte offset of the current token is
// the sum of the lengths of all previous tokens' raw bytes.
func (z *Tokenizer) Raw() []byte {
	return z.buf[z.raw.start:z.raw.end]
}

// convertNewlines converts "\r" and "\r\n" in s to "\n".
// The conversion happens in place, but the resulting slice may be shorter.
func convertNewlines(s []byte) []byte {
	for i, c := range s {
		if c != '\r' {
			continue
		}

		src := i + 1
		if src >= len(s) || s[src] != '\n' {
			s[i] = '\n'
			continue
		}

		dst := i
		for src < len(s) {
			if s[src] == '\r' {
				if src+1 < len(s) && s[src+1] == '\n' {
					src++
				}
				s[dst] = '\n'
			} else {
				s[dst] = s[src]
			}
			src++
			dst++
		}
		return s[:dst]
	}
	return s
}

var (
	nul         = []byte("\x00")
	replacement = []byte("\ufffd")
)

// Text returns the unescaped text of a text, comment or doctype token. The
// contents of the returned slice may change on the next call to Next.
func (z *Tokenizer) Text() []byte {
	switch z.tt {
	case TextToken, CommentToken, DoctypeToken:
		s := z.buf[z.data.start:z.data.end]
		z.data.start = z.raw.end
		z.data.end = z.raw.end
		s = convertNewlines(s)
		if (z.convertNUL || z.tt == CommentToken) && bytes.Contains(s, nul) {
			s = bytes.Replace(s, nul, replacement, -1)
		}
		if !z.textIsRaw {
			s = unescape(s, false)
		}
		return s
	}
	return nil
}

// TagName returns the lower-cased name of a tag token (the `img` out of
// `<IMG SRC="foo">`) and whether the tag has attributes.
// The contents of the returned slice may change on the next call to Next.
func (z *Tokenizer) TagName() (name []byte, hasAttr bool) {
	if z.data.start < z.data.end {
		switch z.tt {
		case StartTagToken, EndTagToken, SelfClosingTagToken:
			s := z.buf[z.data.start:z.data.end]
			z.data.start = z.raw.end
			z.data.end = z.raw.end
			return lower(s), z.nAttrReturned < len(z.attr)
		}
	}
	return nil, false
}

// TagAttr returns the lower-cased key and unescaped value of the next unparsed
// attribute for the current tag token and whether there are more attributes.
// The contents of the returned slices may change on the next call to Next.
func (z *Tokenizer) TagAttr() (key, val []byte, moreAttr bool) {
	if z.nAttrReturned < len(z.attr) {
		switch z.tt {
		case StartTagToken, SelfClosingTagToken:
			x := z.attr[z.nAttrReturned]
			z.nAttrReturned++
			key = z.buf[x[0].start:x[0].end]
			val = z.buf[x[1].start:x[1].end]
			return lower(key), unescape(convertNewlines(val), true), z.nAttrReturned < len(z.attr)
		}
	}
	return nil, nil, false
}

// Token returns the current Token. The result's Data and Attr values remain
// valid after subsequent Next calls.
func (z *Tokenizer) Token() Token {
	t := Token{Type: z.tt}
	switch z.tt {
	case TextToken, CommentToken, DoctypeToken:
		t.Data = string(z.Text())
	case StartTagToken, SelfClosingTagToken, EndTagToken:
		name, moreAttr := z.TagName()
		for moreAttr {
			var key, val []byte
			key, val, moreAttr = z.TagAttr()
			t.Attr = append(t.Attr, Attribute{"", atom.String(key), string(val)})
		}
		if a := atom.Lookup(name); a != 0 {
			t.DataAtom, t.Data = a, a.String()
		} else {
			t.DataAtom, t.Data = 0, string(name)
		}
	}
	return t
}

// SetMaxBuf sets a limit on the amount of data buffered during tokenization.
// A value of 0 means unlimited.
func (z *Tokenizer) SetMaxBuf(n int) {
	z.maxBuf = n
}

// NewTokenizer returns a new HTML Tokenizer for the given Reader.
// The input is assumed to be UTF-8 encoded.
func NewTokenizer(r io.Reader) *Tokenizer {
	return NewTokenizerFragment(r, "")
}

// NewTokenizerFragment returns a new HTML Tokenizer for the given Reader, for
// tokenizing an existing element's InnerHTML fragment. contextTag is that
// element's tag, such as "div" or "iframe".
//
// For example, how the InnerHTML "a<b" is tokenized depends on whether it is
// for a <p> tag or a <script> tag.
//
// The input is assumed to be UTF-8 encoded.
func NewTokenizerFragment(r io.Reader, contextTag string) *Tokenizer {
	z := &Tokenizer{
		r:   r,
		buf: make([]byte, 0, 4096),
	}
	if contextTag != "" {
		switch s := strings.ToLower(contextTag); s {
		case "iframe", "noembed", "noframes", "noscript", "plaintext", "script", "style", "title", "textarea", "xmp":
			z.rawTag = s
		}
	}
	return z
}
