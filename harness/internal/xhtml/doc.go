// Copyright 2010 The Go Authors. All rights reserved.
// Use of this source code is governed by a BSD-style
// license that can be found in the LICENSE file.

/*
Package html implements an HTML5-compliant tokenizer and parser.

Tokenization is done by creating a Tokenizer for an io.Reader r. It is the
caller's responsibility to ensure that r provides UTF-8 encoded HTML.

	z := html.NewTokenizer(r)

Given a Tokenizer z, the HTML is tokenized by repeatedly calling z.Next(),
which parses the next token and returns its type, or an error:

	for {
		tt := z.Next()
		if tt == html.ErrorToken {
			// ...
			return ...
		}
		// Process the current token.
	}

There are two APIs for retrieving the current token. The high-level API is to
call Token; the low-level API is to call Text or TagName / TagAttr. Both APIs
allow optionally calling Raw after Next but before Token, Text, TagName, or
TagAttr. In EBNF notation, the valid call sequence per token is:

	Next {Raw} [ Token | Text | TagName {TagAttr} ]

Token returns an independent data structure that completely describes a token.
Entities (such as "&lt;") are unescaped, tag names and attribute keys are
lower-cased, and attributes are collected into a []Attribute. For example:

	for {
		if z.Next() == html.ErrorToken {
			// Returning io.EOF indicates success.
			return z.Err()
		}
		emitToken(z.Token())
	}

The low-level API performs fewer allocations and copies, but the contents of
the []byte values returned by Text, TagName and TagAttr may change on the next
call to Next. For example, to extract an HTML page's anchor text:

	depth := 0
	for {
		tt := z.Next()
		switch tt {
		case html.ErrorToken:
			return z.Err()
		case html.TextToken:
			if depth > 0 {
				// emitBytes should copy the []byte it receives,
				// if it doesn't process it immediately.
				emitBytes(z.Text())
			}
		case html.StartTagToken, html.EndTagToken:
			tn, _ := z.TagName()
			if len(tn) == 1 && tn[0] == 'a' {
				if tt == html.StartTagToken {
					depth++
				} else {
					depth--
				}
			}
		}
	}

Parsing is done by calling Parse with an io.Reader, which returns the root of
the parse tree (the document element) as a *Node. It is the caller's
responsibility to ensure that the Reader provides UTF-8 encoded HTML. For
example, to process each anchor node in depth-first order:

	doc, err := html.Parse(r)
	if err != nil {
		// ...
	}
	for n := range doc.Descendants() {
		if n.Type == html.ElementNode && n.Data == "a" {
			// Do something with n...
		}
	}

The relevant specifications include:
https://html.spec.whatwg.org/multipage/syntax.html and
https://html.spec.whatwg.org/multipage/syntax.html#tokenization

# Security Considerations

Care should be taken when parsing and interpreting HTML, whether full documents
or fragments, within the framework of the HTML specification, especially with
regard to untrusted inputs.

This package provides both a tokenizer and a parser, which implement the
tokenization, and tokenization and tree construction stages of the WHATWG HTML
parsing specification respectively. While the tokenizer parses and normalizes
individual HTML tokens, only the parser constructs the DOM tree from the
tokenized HTML, as described in the tree construction stage of the
specification, dynamically modifying or extending the document's DOM tree.

If your use case requires semantically well-formed HTML documents, as defined by
the WHATWG specification, the parser should be used rather than the tokenizer.

In security contexts, if trust decisions are being made using the tokenized or
parsed content, the input must be re-serialized (for instance by using Render or
Token.String) in order for those trust decisions to hold, as the process of
tokenization or parsing may alter the content.
*/
package xhtml

// The tokenization algorithm implemented by this package is not a line-by-line
// transliteration of the relatively verbose state-machine in the WHATWG
// specification. A more direct approach is used instead, where the program
// counter implies the state, such as whether it is tokenizing a tag or a text
// node. Specification compliance is verified by checking expected and actual
// outputs over a test suite rather than aiming for algorithmic fidelity.

// TODO(nigeltao): Does a DOM API belong in this package or a separate one?
// TODO(nigeltao): How does parsing interact with a JavaScript engine?
