// Copyright 2011 The Go Authors. All rights reserved.
// Use of this source code is governed by a BSD-style
// license that can be found in the LICENSE file.

package xhtml

import (
	"bufio"
	"errors"
	"fmt"
	"io"
	"strings"
)

type writer interface {
	io.Writer
	io.ByteWriter
	WriteString(string) (int, error)
}

// Render renders the parse tree n to the given writer.
//
// Rendering is done on a 'best effort' basis: calling Parse on the output of
// Render will always result in something similar to the original tree, but it
// is not necessarily an exact clone unless the original tree was 'well-formed'.
// 'Well-formed' is not easily specified; the HTML5 specification is
// complicated.
//
// Calling Parse on arbitrary input typically results in a 'well-formed' parse
// tree. However, it is possible for Parse to yield a 'badly-formed' parse tree.
// For example, in a 'well-formed' parse tree, no <a> element is a child of
// another <a> element: parsing "<a><a>" results in two sibling elements.
// Similarly, in a 'well-formed' parse tree, no <a> element is a child of a
// <table> element: parsing "<p><table><a>" results in a <p> with two sibling
// children; the <a> is reparented to the <table>'s parent. However, calling
// Parse on "<a><table><a>" does not return an error, but the result has an <a>
// element with an <a> child, and is therefore not 'well-formed'.
//
// Programmatically constructed trees are typically also 'well-formed', but it
// is possible to construct a tree that looks innocuous but, when rendered and
// re-parsed, results in a different tree. A simple example is that a solitary
// text node would become a tree containing <html>, <head> and <body> elements.
// Another example is that the programmatic equivalent of "a<head>b</head>c"
// becomes "<html><head><head/><body>abc</body></html>".
func Render(w io.Writer, n *Node) error {
	if x, ok := w.(writer); ok {
		return render(x, n)
	}
	buf := bufio.NewWriter(w)
	if err := render(buf, n); err != nil {
		return err
	}
	return buf.Flush()
}

// plaintextAbort is returned from render1 when a <plaintext> element
// has been rendered. No more end tags should be rendered after that.
var plaintextAbort = errors.New("html: internal error (plaintext abort)")

func render(w writer, n *Node) error {
	err := render1(w, n)
	if err == plaintextAbort {
		err = nil
	}
	return err
}

func render1(w writer, n *Node) error {
	// Render non-element nodes; these are the easy cases.
	switch n.Type {
	case ErrorNode:
		return errors.New("html: cannot render an ErrorNode node")
	case TextNode:
		return escape(w, n.Data)
	case DocumentNode:
		for c := n.FirstChild; c != nil; c = c.NextSibling {
			if err := render1(w, c); err != nil {
				return err
			}
		}
		return nil
	case ElementNode:
		// No-op.
	case CommentNode:
		if _, err := w.WriteString("<!--"); err != nil {
			return err
		}
		if err := escapeComment(w, n.Data); err != nil {
			return err
		}
		if _, err := w.WriteString("-->"); err != nil {
			return err
		}
		return nil
	case DoctypeNode:
		if _, err := w.WriteString("<!DOCTYPE "); err != nil {
			return err
		}
		if err := escape(w, n.Data); err != nil {
			return err
		}
		if n.Attr != nil {
			var p, s string
			for _, a := range n.Attr {
				switch a.Key {
				case "public":
					p = a.Val
				case "system":
					s = a.Val
				}
			}
			if p != "" {
				if _, err := w.WriteString(" PUBLIC "); err != nil {
					return err
				}
				if err := writeQuoted(w, p); err != nil {
					return err
				}
				if s != "" {
					if err := w.WriteByte(' '); err != nil {
						return err
					}
					if err := writeQuoted(w, s); err != nil {
						return err
					}
				}
			} else if s != "" {
				if _, err := w.WriteString(" SYSTEM "); err != nil {
					return err
				}
				if err := writeQuoted(w, s); err != nil {
					return err
				}
			}
		}
		return w.WriteByte('>')
	case RawNode:
		_, err := w.WriteString(n.Data)
		return err
	default:
		return errors.New("html: unknown node type")
	}

	// Render the <xxx> opening tag.
	if err := w.WriteByte('<'); err != nil {
		return err
	}
	if _, err := w.WriteString(n.Data); err != nil {
		return err
	}
	for _, a := range n.Attr {
		if err := w.WriteByte(' '); err != nil {
			return err
		}
		if a.Namespace != "" {
			if _, err := w.WriteString(a.Namespace); err != nil {
				return err
			}
			if err := w.WriteByte(':'); err != nil {
				return err
			}
		}
		if _, err := w.WriteString(a.Key); err != nil {
			return err
		}
		if _, err := w.WriteString(`="`); err != nil {
			return err
		}
		if err := escape(w, a.Val); err != nil {
			return err
		}
		if err := w.WriteByte('"'); err != nil {
			return err
		}
	}
	if voidElements[n.Data] {
		if n.FirstChild != nil {
			return fmt.Errorf("html: void element <%s> has child nodes", n.Data)
		}
		_, err := w.WriteString("/>")
		return err
	}
	if err := w.WriteByte('>'); err != nil {
		return err
	}

	// Add initial newline where there is danger of a newline beging ignored.
	if c := n.FirstChild; c != nil && c.Type == TextNode && strings.HasPrefix(c.Data, "\n") {
		switch n.Data {
		case "pre", "listing", "textarea":
			if err := w.WriteByte('\n'); err != nil {
				return err
			}
		}
	}

	// Render any child nodes
	if childTextNodesAreLiteral(n) {
		for c := n.FirstChild; c != nil; c = c.NextSibling {
			if c.Type == TextNode {
				if _, err := w.WriteString(c.Data); err != nil {
					return err
				}
			} else {
				if err := render1(w, c); err != nil {
					return err
				}
			}
		}
		if n.Data == "plaintext" {
			// Don't render anything else. <plaintext> must be the
			// last element in the file, with no closing tag.
			return plaintextAbort
		}
	} else {
		for c := n.FirstChild; c != nil; c = c.NextSibling {
			if err := render1(w, c); err != nil {
				return err
			}
		}
	}

	// Render the </xxx> closing tag.
	if _, err := w.WriteString("</"); err != nil {
		return err
	}
	if _, err := w.WriteString(n.Data); err != nil {
		return err
	}
	return w.WriteByte('>')
}

func childTextNodesAreLiteral(n *Node) bool {
	// Per WHATWG HTML 13.3, if the parent of the current node is a style,
	// script, xmp, iframe, noembed, noframes, or plaintext element, and the
	// current node is a text node, append the value of the node's data
	// literally. The specification is not explicit about it, but we only
	// enforce this if we are in the HTML namespace (i.e. when the namespace is
	// "").
	// NOTE: we also always include noscript elements, although the
	// specification states that they should only be rendered as such if
	// scripting is enabled for the node (which is not something we track).
	if n.Namespace != "" {
		return false
	}
	switch n.Data {
	case "iframe", "noembed", "noframes", "noscript", "plaintext", "script", "style", "xmp":
		return true
	default:
		return false
	}
}

// writeQuoted writes s to w surrounded by quotes. Normally it will use double
// quotes, but if s contains a double quote, it will use single quotes.
// It is used for writing the identifiers in a doctype declaration.
// In valid HTML, they can't contain both types of quotes.
func writeQuoted(w writer, s string) error {
	var q byte = '"'
	if strings.Contains(s, `"`) {
		q = '\''
	}
	if err := w.WriteByte(q); err != nil {
		return err
	}
	if _, err := w.WriteString(s); err != nil {
		return err
	}
	if err := w.WriteByte(q); err != nil {
		return err
	}
	return nil
}

// Section 12.1.2, "Elements", gives this list of void elements. Void elements
// are those that can't have any contents.
var voidElements = map[string]bool{
	"area":   true,
	"base":   true,
	"br":     true,
	"col":    true,
	"embed":  true,
	"hr":     true,
	"img":    true,
	"input":  true,
	"keygen": true, // "keygen" has been removed from the spec, but are kept here for backwards compatibility.
	"link":   true,
	"meta":   true,
	"param":  true,
	"source": true,
	"track":  true,
	"wbr":    true,
}
