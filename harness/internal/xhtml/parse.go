// Copyright 2010 The Go Authors. All rights reserved.
// Use of this source code is governed by a BSD-style
// license that can be found in the LICENSE file.

package xhtml

import (
	"errors"
	"fmt"
	"io"
	"strings"

	a "verif/harness/internal/xhtml/atom"
)

// A parser implements the HTML5 parsing algorithm:
// https://html.spec.whatwg.org/multipage/syntax.html#tree-construction
type parser struct {
	// tokenizer provides the tokens for the parser.
	tokenizer *Tokenizer
	// tok is the most recently read token.
	tok Token
	// Self-closing tags like <hr/> are treated as start tags, except that
	// hasSelfClosingToken is set while they are being processed.
	hasSelfClosingToken bool
	// doc is the document root element.
	doc *Node
	// The stack of open elements (section 12.2.4.2) and active formatting
	// elements (section 12.2.4.3).
	oe, afe nodeStack
	// Element pointers (section 12.2.4.4).
	head, form *Node
	// Other parsing state flags (section 12.2.4.5).
	scripting, framesetOK bool
	// The stack of template insertion modes
	templateStack insertionModeStack
	// im is the current insertion mode.
	im insertionMode
	// originalIM is the insertion mode to go back to after completing a text
	// or inTableText insertion mode.
	originalIM insertionMode
	// fosterParenting is whether new elements should be inserted according to
	// the foster parenting rules (section 12.2.6.1).
	fosterParenting bool
	// quirks is whether the parser is operating in "quirks mode."
	quirks bool
	// fragment is whether the parser is parsing an HTML fragment.
	fragment bool
	// context is the context element when parsing an HTML fragment
	// (section 12.4).
	context *Node
}

func (p *parser) top() *Node {
	if n := p.oe.top(); n != nil {
		return n
	}
	return p.doc
}

// Stop tags for use in popUntil. These come from section 12.2.4.2.
var (
	defaultScopeStopTags = map[string][]a.Atom{
		"":     {a.Applet, a.Caption, a.Html, a.Table, a.Td, a.Th, a.Marquee, a.Object, a.Template},
		"math": {a.AnnotationXml, a.Mi, a.Mn, a.Mo, a.Ms, a.Mtext},
		"svg":  {a.Desc, a.ForeignObject, a.Title},
	}
)

type scope int

const (
	defaultScope scope = iota
	listItemScope
	buttonScope
	tableScope
	tableRowScope
	tableBodyScope
	selectScope
)

// popUntil pops the stack of open elements at the highest element whose tag
// is in matchTags, provided there is no higher element in the scope's stop
// tags (as defined in section 12.2.4.2). It returns whether or not there was
// such an element. If there was not, popUntil leaves the stack unchanged.
//
// For example, the set of stop tags for table scope is: "html", "table". If
// the stack was:
// ["html", "body", "font", "table", "b", "i", "u"]
// then popUntil(tableScope, "font") would return false, but
// popUntil(tableScope, "i") would return true and the stack would become:
// ["html", "body", "font", "table", "b"]
//
// If an element's tag is in both the stop tags and matchTags, then the stack
// will be popped and the function returns true (provided, of course, there was
// no higher element in the stack that was also in the stop tags). For example,
// popUntil(tableScope, "table") returns true and leaves:
// ["html", "body", "font"]
func (p *parser) popUntil(s scope, matchTags ...a.Atom) bool {
	if i := p.indexOfElementInScope(s, matchTags...); i != -1 {
		p.oe = p.oe[:i]
		return true
	}
	return false
}

// indexOfElementInScope returns the index in p.oe of the highest element whose
// tag is in matchTags that is in scope. If no matching element is in scope, it
// returns -1.
func (p *parser) indexOfElementInScope(s scope, matchTags ...a.Atom) int {
	for i := len(p.oe) - 1; i >= 0; i-- {
		tagAtom := p.oe[i].DataAtom
		if p.oe[i].Namespace == "" {
			for _, t := range matchTags {
				if t == tagAtom {
					return i
				}
			}
			switch s {
			case defaultScope:
				// No-op.
			case listItemScope:
				if tagAtom == a.Ol || tagAtom == a.Ul {
					return -1
				}
			case buttonScope:
				if tagAtom == a.Button {
					return -1
				}
			case tableScope:
				if tagAtom == a.Html || tagAtom == a.Table || tagAtom == a.Template {
					return -1
				}
			case selectScope:
				if tagAtom != a.Optgroup && tagAtom != a.Option {
					return -1
				}
			default:
				panic("unreachable")
			}
		}
		switch s {
		case defaultScope, listItemScope, buttonScope:
			for _, t := range defaultScopeStopTags[p.oe[i].Namespace] {
				if t == tagAtom {
					return -1
				}
			}
		}
	}
	return -1
}

// elementInScope is like popUntil, except that it doesn't modify the stack of
// open elements.
func (p *parser) elementInScope(s scope, matchTags ...a.Atom) bool {
	return p.indexOfElementInScope(s, matchTags...) != -1
}

// clearStackToContext pops elements off the stack of open elements until a
// scope-defined element is found.
func (p *parser) clearStackToContext(s scope) {
	for i := len(p.oe) - 1; i >= 0; i-- {
		tagAtom := p.oe[i].DataAtom
		switch s {
		case tableScope:
			if tagAtom == a.Html || tagAtom == a.Table || tagAtom == a.Template {
				p.oe = p.oe[:i+1]
				return
			}
		case tableRowScope:
			if tagAtom == a.Html || tagAtom == a.Tr || tagAtom == a.Template {
				p.oe = p.oe[:i+1]
				return
			}
		case tableBodyScope:
			if tagAtom == a.Html || tagAtom == a.Tbody || tagAtom == a.Tfoot || tagAtom == a.Thead || tagAtom == a.Template {
				p.oe = p.oe[:i+1]
				return
			}
		default:
			panic("unreachable")
		}
	}
}

// parseGenericRawTextElement implements the generic raw text element parsing
// algorithm defined in 12.2.6.2.
// https://html.spec.whatwg.org/multipage/parsing.html#parsing-elements-that-contain-only-text
// TODO: Since both RAWTEXT and RCDATA states are treated as tokenizer's part
// officially, need to make tokenizer consider both states.
func (p *parser) parseGenericRawTextElement() {
	p.addElement()
	p.originalIM = p.im
	p.im = textIM
}

// generateImpliedEndTags pops nodes off the stack of open elements as long as
// the top node has a tag name of dd, dt, li, optgroup, option, p, rb, rp, rt or rtc.
// If exceptions are specified, nodes with that name will not be popped off.
func (p *parser) generateImpliedEndTags(exceptions ...string) {
	var i int
loop:
	for i = len(p.oe) - 1; i >= 0; i-- {
		n := p.oe[i]
		if n.Type != ElementNode {
			break
		}
		switch n.DataAtom {
		case a.Dd, a.Dt, a.Li, a.Optgroup, a.Option, a.P, a.Rb, a.Rp, a.Rt, a.Rtc:
			for _, except := range exceptions {
				if n.Data == except {
					break loop
				}
			}
			continue
		}
		break
	}

	p.oe = p.oe[:i+1]
}

// addChild adds a child node n to the top element, and pushes n onto the stack
// of open elements if it is an element node.
func (p *parser) addChild(n *Node) {
	if p.shouldFosterParent() {
		p.fosterParent(n)
	} else {
		p.top().AppendChild(n)
	}

	if n.Type == ElementNode {
		p.oe = append(p.oe, n)
	}
}

// shouldFosterParent returns whether the next node to be added should be
// foster parented.
func (p *parser) shouldFosterParent() bool {
	if p.fosterParenting {
		switch p.top().DataAtom {
		case a.Table, a.Tbody, a.Tfoot, a.Thead, a.Tr:
			return true
		}
	}
	return false
}

// fosterParent adds a child node according to the foster parenting rules.
// Section 12.2.6.1, "foster parenting".
func (p *parser) fosterParent(n *Node) {
	var table, parent, prev, template *Node
	var i int
	for i = len(p.oe) - 1; i >= 0; i-- {
		if p.oe[i].DataAtom == a.Table {
			table = p.oe[i]
			break
		}
	}

	var j int
	for j = len(p.oe) - 1; j >= 0; j-- {
		if p.oe[j].DataAtom == a.Template {
			template = p.oe[j]
			break
		}
	}

	if template != nil && (table == nil || j > i) {
		template.AppendChild(n)
		return
	}

	if table == nil {
		// The foster parent is the html element.
		parent = p.oe[0]
	} else {
		parent = table.Parent
	}
	if parent == nil {
		parent = p.oe[i-1]
	}

	if table != nil {
		prev = table.PrevSibling
	} else {
		prev = parent.LastChild
	}
	if prev != nil && prev.Type == TextNode && n.Type == TextNode {
		prev.Data += n.Data
		return
	}

	parent.InsertBefore(n, table)
}

// addText adds text to the preceding node if it is a text node, or else it
// calls addChild with a new text node.
func (p *parser) addText(text string) {
	if text == "" {
		return
	}

	if p.shouldFosterParent() {
		p.fosterParent(&Node{
			Type: TextNode,
			Data: text,
		})
		return
	}

	t := p.top()
	if n := t.LastChild; n != nil && n.Type == TextNode {
		n.Data += text
		return
	}
	p.addChild(&Node{
		Type: TextNode,
		Data: text,
	})
}

// addElement adds a child element based on the current token.
func (p *parser) addElement() {
	p.addChild(&Node{
		Type:     ElementNode,
		DataAtom: p.tok.DataAtom,
		Data:     p.tok.Data,
		Attr:     p.tok.Attr,
	})
}

// Section 12.2.4.3.
func (p *parser) addFormattingElement() {
	tagAtom, attr := p.tok.DataAtom, p.tok.Attr
	p.addElement()

	// Implement the Noah's Ark clause, but with three per family instead of two.
	identicalElements := 0
findIdenticalElements:
	for i := len(p.afe) - 1; i >= 0; i-- {
		n := p.afe[i]
		if n.Type == scopeMarkerNode {
			break
		}
		if n.Type != ElementNode {
			continue
		}
		if n.Namespace != "" {
			continue
		}
		if n.DataAtom != tagAtom {
			continue
		}
		if len(n.Attr) != len(attr) {
			continue
		}
	compareAttributes:
		for _, t0 := range n.Attr {
			for _, t1 := range attr {
				if t0.Key == t1.Key && t0.Namespace == t1.Namespace && t0.Val == t1.Val {
					// Found a match for this attribute, continue with the next attribute.
					continue compareAttributes
				}
			}
			// If we get here, there is no attribute that matches a.
			// Therefore the element is not identical to the new one.
			continue findIdenticalElements
		}

		identicalElements++
		if identicalElements >= 3 {
			p.afe.remove(n)
		}
	}

	p.afe = append(p.afe, p.top())
}

// Section 12.2.4.3.
func (p *parser) clearActiveFormattingElements() {
	for {
		if n := p.afe.pop(); len(p.afe) == 0 || n.Type == scopeMarkerNode {
			return
		}
	}
}

// Section 12.2.4.3.
func (p *parser) reconstructActiveFormattingElements() {
	n := p.afe.top()
	if n == nil {
		return
	}
	if n.Type == scopeMarkerNode || p.oe.index(n) != -1 {
		return
	}
	i := len(p.afe) - 1
	for n.Type != scopeMarkerNode && p.oe.index(n) == -1 {
		if i == 0 {
			i = -1
			break
		}
		i--
		n = p.afe[i]
	}
	for {
		i++
		clone := p.afe[i].clone()
		p.addChild(clone)
		p.afe[i] = clone
		if i == len(p.afe)-1 {
			break
		}
	}
}

// Section 12.2.5.
func (p *parser) acknowledgeSelfClosingTag() {
	p.hasSelfClosingToken = false
}

// An insertion mode (section 12.2.4.1) is the state transition function from
// a particular state in the HTML5 parser's state machine. It updates the
// parser's fields depending on parser.tok (where ErrorToken means EOF).
// It returns whether the token was consumed.
type insertionMode func(*parser) bool

// setOriginalIM sets the insertion mode to return to after completing a text or
// inTableText insertion mode.
// Section 12.2.4.1, "using the rules for".
func (p *parser) setOriginalIM() {
	if p.originalIM != nil {
		panic("html: bad parser state: originalIM was set twice")
	}
	p.originalIM = p.im
}

// Section 12.2.4.1, "reset the insertion mode".
func (p *parser) resetInsertionMode() {
	for i := len(p.oe) - 1; i >= 0; i-- {
		n := p.oe[i]
		last := i == 0
		if last && p.context != nil {
			n = p.context
		}

		switch n.DataAtom {
		case a.Select:
			if !last {
				for ancestor, first := n, p.oe[0]; ancestor != first; {
					ancestor = p.oe[p.oe.index(ancestor)-1]
					switch ancestor.DataAtom {
					case a.Template:
						p.im = inSelectIM
						return
					case a.Table:
						p.im = inSelectInTableIM
						return
					}
				}
			}
			p.im = inSelectIM
		case a.Td, a.Th:
			// TODO: remove this divergence from the HTML5 spec.
			//
			// See https://bugs.chromium.org/p/chromium/issues/detail?id=829668
			p.im = inCellIM
		case a.Tr:
			p.im = inRowIM
		case a.Tbody, a.Thead, a.Tfoot:
			p.im = inTableBodyIM
		case a.Caption:
			p.im = inCaptionIM
		case a.Colgroup:
			p.im = inColumnGroupIM
		case a.Table:
			p.im = inTableIM
		case a.Template:
			// TODO: remove this divergence from the HTML5 spec.
			if n.Namespace != "" {
				continue
			}
			p.im = p.templateStack.top()
		case a.Head:
			// TODO: remove this divergence from the HTML5 spec.
			//
			// See https://bugs.chromium.org/p/chromium/issues/detail?id=829668
			p.im = inHeadIM
		case a.Body:
			p.im = inBodyIM
		case a.Frameset:
			p.im = inFramesetIM
		case a.Html:
			if p.head == nil {
				p.im = beforeHeadIM
			} else {
				p.im = afterHeadIM
			}
		default:
			if last {
				p.im = inBodyIM
				return
			}
			continue
		}
		return
	}
}

const whitespace = " \t\r\n\f"

// Section 12.2.6.4.1.
func initialIM(p *parser) bool {
	switch p.tok.Type {
	case TextToken:
		p.tok.Data = strings.TrimLeft(p.tok.Data, whitespace)
		if len(p.tok.Data) == 0 {
			// It was all whitespace, so ignore it.
			return true
		}
	case CommentToken:
		p.doc.AppendChild(&Node{
			Type: CommentNode,
			Data: p.tok.Data,
		})
		return true
	case DoctypeToken:
		n, quirks := parseDoctype(p.tok.Data)
		p.doc.AppendChild(n)
		p.quirks = quirks
		p.im = beforeHTMLIM
		return true
	}
	p.quirks = true
	p.im = beforeHTMLIM
	return false
}

// Section 12.2.6.4.2.
func beforeHTMLIM(p *parser) bool {
	switch p.tok.Type {
	case DoctypeToken:
		// Ignore the token.
		return true
	case TextToken:
		p.tok.Data = strings.TrimLeft(p.tok.Data, whitespace)
		if len(p.tok.Data) == 0 {
			// It was all whitespace, so ignore it.
			return true
		}
	case StartTagToken:
		if p.tok.DataAtom == a.Html {
			p.addElement()
			p.im = beforeHeadIM
			return true
		}
	case EndTagToken:
		switch p.tok.DataAtom {
		case a.Head, a.Body, a.Html, a.Br:
			p.parseImpliedToken(StartTagToken, a.Html, a.Html.String())
			return false
		default:
			// Ignore the token.
			return true
		}
	case CommentToken:
		p.doc.AppendChild(&Node{
			Type: CommentNode,
			Data: p.tok.Data,
		})
		return true
	}
	p.parseImpliedToken(StartTagToken, a.Html, a.Html.String())
	return false
}

// Section 12.2.6.4.3.
func beforeHeadIM(p *parser) bool {
	switch p.tok.Type {
	case TextToken:
		p.tok.Data = strings.TrimLeft(p.tok.Data, whitespace)
		if len(p.tok.Data) == 0 {
			// It was all whitespace, so ignore it.
			return true
		}
	case StartTagToken:
		switch p.tok.DataAtom {
		case a.Head:
			p.addElement()
			p.head = p.top()
			p.im = inHeadIM
			return true
		case a.Html:
			return inBodyIM(p)
		}
	case EndTagToken:
		switch p.tok.DataAtom {
		case a.Head, a.Body, a.Html, a.Br:
			p.parseImpliedToken(StartTagToken, a.Head, a.Head.String())
			return false
		default:
			// Ignore the token.
			return true
		}
	case CommentToken:
		p.addChild(&Node{
			Type: CommentNode,
			Data: p.tok.Data,
		})
		return true
	case DoctypeToken:
		// Ignore the token.
		return true
	}

	p.parseImpliedToken(StartTagToken, a.Head, a.Head.String())
	return false
}

// Section 12.2.6.4.4.
func inHeadIM(p *parser) bool {
	switch p.tok.Type {
	case TextToken:
		s := strings.TrimLeft(p.tok.Data, whitespace)
		if len(s) < len(p.tok.Data) {
			// Add the initial whitespace to the current node.
			p.addText(p.tok.Data[:len(p.tok.Data)-len(s)])
			if s == "" {
				return true
			}
			p.tok.Data = s
		}
	case StartTagToken:
		switch p.tok.DataAtom {
		case a.Html:
			return inBodyIM(p)
		case a.Base, a.Basefont, a.Bgsound, a.Link, a.Meta:
			p.addElement()
			p.oe.pop()
			p.acknowledgeSelfClosingTag()
			return true
		case a.Noscript:
			if p.scripting {
				p.parseGenericRawTextElement()
				return true
			}
			p.addElement()
			p.im = inHeadNoscriptIM
			// Don't let the tokenizer go into raw text mode when scripting is disabled.
			p.tokenizer.NextIsNotRawText()
			return true
		case a.Script, a.Title:
			p.addElement()
			p.setOriginalIM()
			p.im = textIM
			return true
		case a.Noframes, a.Style:
			p.parseGenericRawTextElement()
			return true
		case a.Head:
			// Ignore the token.
			return true
		case a.Template:
			// TODO: remove this divergence from the HTML5 spec.
			//
			// We don't handle all of the corner cases when mixing foreign
			// content (i.e. <math> or <svg>) with <template>. Without this
			// early return, we can get into an infinite loop, possibly because
			// of the "TODO... further divergence" a little below.
			//
			// As a workaround, if we are mixing foreign content and templates,
			// just ignore the rest of the HTML. Foreign content is rare and a
			// relatively old HTML feature. Templates are also rare and a
			// relatively new HTML feature. Their combination is very rare.
			for _, e := range p.oe {
				if e.Namespace != "" {
					p.im = ignoreTheRemainingTokens
					return true
				}
			}

			p.addElement()
			p.afe = append(p.afe, &scopeMarker)
			p.framesetOK = false
			p.im = inTemplateIM
			p.templateStack = append(p.templateStack, inTemplateIM)
			return true
		}
	case EndTagToken:
		switch p.tok.DataAtom {
		case a.Head:
			p.oe.pop()
			p.im = afterHeadIM
			return true
		case a.Body, a.Html, a.Br:
			p.parseImpliedToken(EndTagToken, a.Head, a.Head.String())
			return false
		case a.Template:
			if !p.oe.contains(a.Template) {
				return true
			}
			// TODO: remove this further divergence from the HTML5 spec.
			//
			// See https://bugs.chromium.org/p/chromium/issues/detail?id=829668
			p.generateImpliedEndTags()
			for i := len(p.oe) - 1; i >= 0; i-- {
				if n := p.oe[i]; n.Namespace == "" && n.DataAtom == a.Template {
					p.oe = p.oe[:i]
					break
				}
			}
			p.clearActiveFormattingElements()
			p.templateStack.pop()
			p.resetInsertionMode()
			return true
		default:
			// Ignore the token.
			return true
		}
	case CommentToken:
		p.addChild(&Node{
			Type: CommentNode,
			Data: p.tok.Data,
		})
		return true
	case DoctypeToken:
		// Ignore the token.
		return true
	}

	p.parseImpliedToken(EndTagToken, a.Head, a.Head.String())
	return false
}

// Section 12.2.6.4.5.
func inHeadNoscriptIM(p *parser) bool {
	switch p.tok.Type {
	case DoctypeToken:
		// Ignore the token.
		return true
	case StartTagToken:
		switch p.tok.DataAtom {
		case a.Html:
			return inBodyIM(p)
		case a.Basefont, a.Bgsound, a.Link, a.Meta, a.Noframes, a.Style:
			return inHeadIM(p)
		case a.Head:
			// Ignore the token.
			return true
		case a.Noscript:
			// Don't let the tokenizer go into raw text mode even when a <noscript>
			// tag is in "in head noscript" insertion mode.
			p.tokenizer.NextIsNotRawText()
			// Ignore the token.
			return true
		}
	case EndTagToken:
		switch p.tok.DataAtom {
		case a.Noscript, a.Br:
		default:
			// Ignore the token.
			return true
		}
	case TextToken:
		s := strings.TrimLeft(p.tok.Data, whitespace)
		if len(s) == 0 {
			// It was all whitespace.
			return inHeadIM(p)
		}
	case CommentToken:
		return inHeadIM(p)
	}
	p.oe.pop()
	if p.top().DataAtom != a.Head {
		panic("html: the new current node will be a head element.")
	}
	p.im = inHeadIM
	if p.tok.DataAtom == a.Noscript {
		return true
	}
	return false
}

// Section 12.2.6.4.6.
func afterHeadIM(p *parser) bool {
	switch p.tok.Type {
	case TextToken:
		s := strings.TrimLeft(p.tok.Data, whitespace)
		if len(s) < len(p.tok.Data) {
			// Add the initial whitespace to the current node.
			p.addText(p.tok.Data[:len(p.tok.Data)-len(s)])
			if s == "" {
				return true
			}
			p.tok.Data = s
		}
	case StartTagToken:
		switch p.tok.DataAtom {
		case a.Html:
			return inBodyIM(p)
		case a.Body:
			p.addElement()
			p.framesetOK = false
			p.im = inBodyIM
			return true
		case a.Frameset:
			p.addElement()
			p.im = inFramesetIM
			return true
		case a.Base, a.Basefont, a.Bgsound, a.Link, a.Meta, a.Noframes, a.Script, a.Style, a.Template, a.Title:
			p.oe = append(p.oe, p.head)
			defer p.oe.remove(p.head)
			return inHeadIM(p)
		case a.Head:
			// Ignore the token.
			return true
		}
	case EndTagToken:
		switch p.tok.DataAtom {
		case a.Body, a.Html, a.Br:
			// Drop down to creating an implied <body> tag.
		case a.Template:
			return inHeadIM(p)
		default:
			// Ignore the token.
			return true
		}
	case CommentToken:
		p.addChild(&Node{
			Type: CommentNode,
			Data: p.tok.Data,
		})
		return true
	case DoctypeToken:
		// Ignore the token.
		return true
	}

	p.parseImpliedToken(StartTagToken, a.Body, a.Body.String())
	p.framesetOK = true
	if p.tok.Type == ErrorToken {
		// Stop parsing.
		return true
	}
	return false
}

// copyAttributes copies attributes of src not found on dst to dst.
func copyAttributes(dst *Node, src Token) {
	if len(src.Attr) == 0 {
		return
	}
	attr := map[string]string{}
	for _, t := range dst.Attr {
		attr[t.Key] = t.Val
	}
	for _, t := range src.Attr {
		if _, ok := attr[t.Key]; !ok {
			dst.Attr = append(dst.Attr, t)
			attr[t.Key] = t.Val
		}
	}
}

// Section 12.2.6.4.7.
func inBodyIM(p *parser) bool {
	switch p.tok.Type {
	case TextToken:
		d := p.tok.Data
		switch n := p.oe.top(); n.DataAtom {
		case a.Pre, a.Listing:
			if n.FirstChild == nil {
				// Ignore a newline at the start of a <pre> block.
				if d != "" && d[0] == '\r' {
					d = d[1:]
				}
				if d != "" && d[0] == '\n' {
					d = d[1:]
				}
			}
		}
		d = strings.Replace(d, "\x00", "", -1)
		if d == "" {
			return true
		}
		p.reconstructActiveFormattingElements()
		p.addText(d)
		if p.framesetOK && strings.TrimLeft(d, whitespace) != "" {
			// There were non-whitespace characters inserted.
			p.framesetOK = false
		}
	case StartTagToken:
		switch p.tok.DataAtom {
		case a.Html:
			if p.oe.contains(a.Template) {
				return true
			}
			copyAttributes(p.oe[0], p.tok)
		case a.Base, a.Basefont, a.Bgsound, a.Link, a.Meta, a.Noframes, a.Script, a.Style, a.Template, a.Title:
			return inHeadIM(p)
		case a.Body:
			if p.oe.contains(a.Template) {
				return true
			}
			if len(p.oe) >= 2 {
				body := p.oe[1]
				if body.Type == ElementNode && body.DataAtom == a.Body {
					p.framesetOK = false
					copyAttributes(body, p.tok)
				}
			}
		case a.Frameset:
			if !p.framesetOK || len(p.oe) < 2 || p.oe[1].DataAtom != a.Body {
				// Ignore the token.
				return true
			}
			body := p.oe[1]
			if body.Parent != nil {
				body.Parent.RemoveChild(body)
			}
			p.oe = p.oe[:1]
			p.addElement()
			p.im = inFramesetIM
			return true
		case a.Address, a.Article, a.Aside, a.Blockquote, a.Center, a.Details, a.Dialog, a.Dir, a.Div, a.Dl, a.Fieldset, a.Figcaption, a.Figure, a.Footer, a.Header, a.Hgroup, a.Main, a.Menu, a.Nav, a.Ol, a.P, a.Section, a.Summary, a.Ul:
			p.popUntil(buttonScope, a.P)
			p.addElement()
		case a.H1, a.H2, a.H3, a.H4, a.H5, a.H6:
			p.popUntil(buttonScope, a.P)
			switch n := p.top(); n.DataAtom {
			case a.H1, a.H2, a.H3, a.H4, a.H5, a.H6:
				p.oe.pop()
			}
			p.addElement()
		case a.Pre, a.Listing:
			p.popUntil(buttonScope, a.P)
			p.addElement()
			// The newline, if any, will be dealt with by the TextToken case.
			p.framesetOK = false
		case a.Form:
			if p.form != nil && !p.oe.contains(a.Template) {
				// Ignore the token
				return true
			}
			p.popUntil(buttonScope, a.P)
			p.addElement()
			if !p.oe.contains(a.Template) {
				p.form = p.top()
			}
		case a.Li:
			p.framesetOK = false
			for i := len(p.oe) - 1; i >= 0; i-- {
				node := p.oe[i]
				switch node.DataAtom {
				case a.Li:
					p.oe = p.oe[:i]
				case a.Address, a.Div, a.P:
					continue
				default:
					if !isSpecialElement(node) {
						continue
					}
				}
				break
			}
			p.popUntil(buttonScope, a.P)
			p.addElement()
		case a.Dd, a.Dt:
			p.framesetOK = false
			for i := len(p.oe) - 1; i >= 0; i-- {
				node := p.oe[i]
				switch node.DataAtom {
				case a.Dd, a.Dt:
					p.oe = p.oe[:i]
				case a.Address, a.Div, a.P:
					continue
				default:
					if !isSpecialElement(node) {
						continue
					}
				}
				break
			}
			p.popUntil(buttonScope, a.P)
			p.addElement()
		case a.Plaintext:
			p.popUntil(buttonScope, a.P)
			p.addElement()
		case a.Button:
			p.popUntil(defaultScope, a.Button)
			p.reconstructActiveFormattingElements()
			p.addElement()
			p.framesetOK = false
		case a.A:
			for i := len(p.afe) - 1; i >= 0 && p.afe[i].Type != scopeMarkerNode; i-- {
				if n := p.afe[i]; n.Type == ElementNode && n.DataAtom == a.A {
					p.inBodyEndTagFormatting(a.A, "a")
					p.oe.remove(n)
					p.afe.remove(n)
					break
				}
			}
			p.reconstructActiveFormattingElements()
			p.addFormattingElement()
		case a.B, a.Big, a.Code, a.Em, a.Font, a.I, a.S, a.Small, a.Strike, a.Strong, a.Tt, a.U:
			p.reconstructActiveFormattingElements()
			p.addFormattingElement()
		case a.Nobr:
			p.reconstructActiveFormattingElements()
			if p.elementInScope(defaultScope, a.Nobr) {
				p.inBodyEndTagFormatting(a.Nobr, "nobr")
				p.reconstructActiveFormattingElements()
			}
			p.addFormattingElement()
		case a.Applet, a.Marquee, a.Object:
			p.reconstructActiveFormattingElements()
			p.addElement()
			p.afe = append(p.afe, &scopeMarker)
			p.framesetOK = false
		case a.Table:
			if !p.quirks {
				p.popUntil(buttonScope, a.P)
			}
			p.addElement()
			p.framesetOK = false
			p.im = inTableIM
			return true
		case a.Area, a.Br, a.Embed, a.Img, a.Input, a.Keygen, a.Wbr:
			p.reconstructActiveFormattingElements()
			p.addElement()
			p.oe.pop()
			p.acknowledgeSelfClosingTag()
			if p.tok.DataAtom == a.Input {
				for _, t := range p.tok.Attr {
					if t.Key == "type" {
						if strings.EqualFold(t.Val, "hidden") {
							// Skip setting framesetOK = false
							return true
						}
					}
				}
			}
			p.framesetOK = false
		case a.Param, a.Source, a.Track:
			p.addElement()
			p.oe.pop()
			p.acknowledgeSelfClosingTag()
		case a.Hr:
			p.popUntil(buttonScope, a.P)
			p.addElement()
			p.oe.pop()
			p.acknowledgeSelfClosingTag()
			p.framesetOK = false
		case a.Image:
			p.tok.DataAtom = a.Img
			p.tok.Data = a.Img.String()
			return false
		case a.Textarea:
			p.addElement()
			p.setOriginalIM()
			p.framesetOK = false
			p.im = textIM
		case a.Xmp:
			p.popUntil(buttonScope, a.P)
			p.reconstructActiveFormattingElements()
			p.framesetOK = false
			p.parseGenericRawTextElement()
		case a.Iframe:
			p.framesetOK = false
			p.parseGenericRawTextElement()
		case a.Noembed:
			p.parseGenericRawTextElement()
		case a.Noscript:
			if p.scripting {
				p.parseGenericRawTextElement()
				return true
			}
			p.reconstructActiveFormattingElements()
			p.addElement()
			// Don't let the tokenizer go into raw text mode when scripting is disabled.
			p.tokenizer.NextIsNotRawText()
		case a.Select:
			p.reconstructActiveFormattingElements()
			p.addElement()
			p.framesetOK = false
			p.im = inSelectIM
			return true
		case a.Optgroup, a.Option:
			if p.top().DataAtom == a.Option {
				p.oe.pop()
			}
			p.reconstructActiveFormattingElements()
			p.addElement()
		case a.Rb, a.Rtc:
			if p.elementInScope(defaultScope, a.Ruby) {
				p.generateImpliedEndTags()
			}
			p.addElement()
		case a.Rp, a.Rt:
			if p.elementInScope(defaultScope, a.Ruby) {
				p.generateImpliedEndTags("rtc")
			}
			p.addElement()
		case a.Math, a.Svg:
			p.reconstructActiveFormattingElements()
			if p.tok.DataAtom == a.Math {
				adjustAttributeNames(p.tok.Attr, mathMLAttributeAdjustments)
			} else {
				adjustAttributeNames(p.tok.Attr, svgAttributeAdjustments)
			}
			adjustForeignAttributes(p.tok.Attr)
			p.addElement()
			p.top().Namespace = p.tok.Data
			if p.hasSelfClosingToken {
				p.oe.pop()
				p.acknowledgeSelfClosingTag()
			}
			return true
		case a.Caption, a.Col, a.Colgroup, a.Frame, a.Head, a.Tbody, a.Td, a.Tfoot, a.Th, a.Thead, a.Tr:
			// Ignore the token.
		default:
			p.reconstructActiveFormattingElements()
			p.addElement()
		}
	case EndTagToken:
		switch p.tok.DataAtom {
		case a.Body:
			if p.elementInScope(defaultScope, a.Body) {
				p.im = afterBodyIM
			}
		case a.Html:
			if p.elementInScope(defaultScope, a.Body) {
				p.parseImpliedToken(EndTagToken, a.Body, a.Body.String())
				return false
			}
			return true
		case a.Address, a.Article, a.Aside, a.Blockquote, a.Button, a.Center, a.Details, a.Dialog, a.Dir, a.Div, a.Dl, a.Fieldset, a.Figcaption, a.Figure, a.Footer, a.Header, a.Hgroup, a.Listing, a.Main, a.Menu, a.Nav, a.Ol, a.Pre, a.Section, a.Summary, a.Ul:
			p.popUntil(defaultScope, p.tok.DataAtom)
		case a.Form:
			if p.oe.contains(a.Template) {
				i := p.indexOfElementInScope(defaultScope, a.Form)
				if i == -1 {
					// Ignore the token.
					return true
				}
				p.generateImpliedEndTags()
				if p.oe[i].DataAtom != a.Form {
					// Ignore the token.
					return true
				}
				p.popUntil(defaultScope, a.Form)
			} else {
				node := p.form
				p.form = nil
				i := p.indexOfElementInScope(defaultScope, a.Form)
				if node == nil || i == -1 || p.oe[i] != node {
					// Ignore the token.
					return true
				}
				p.generateImpliedEndTags()
				p.oe.remove(node)
			}
		case a.P:
			if !p.elementInScope(buttonScope, a.P) {
				p.parseImpliedToken(StartTagToken, a.P, a.P.String())
			}
			p.popUntil(buttonScope, a.P)
		case a.Li:
			p.popUntil(listItemScope, a.Li)
		case a.Dd, a.Dt:
			p.popUntil(defaultScope, p.tok.DataAtom)
		case a.H1, a.H2, a.H3, a.H4, a.H5, a.H6:
			p.popUntil(defaultScope, a.H1, a.H2, a.H3, a.H4, a.H5, a.H6)
		case a.A, a.B, a.Big, a.Code, a.Em, a.Font, a.I, a.Nobr, a.S, a.Small, a.Strike, a.Strong, a.Tt, a.U:
			p.inBodyEndTagFormatting(p.tok.DataAtom, p.tok.Data)
		case a.Applet, a.Marquee, a.Object:
			if p.popUntil(defaultScope, p.tok.DataAtom) {
				p.clearActiveFormattingElements()
			}
		case a.Br:
			p.tok.Type = StartTagToken
			return false
		case a.Template:
			return inHeadIM(p)
		default:
			p.inBodyEndTagOther(p.tok.DataAtom, p.tok.Data)
		}
	case CommentToken:
		p.addChild(&Node{
			Type: CommentNode,
			Data: p.tok.Data,
		})
	case ErrorToken:
		// TODO: remove this divergence from the HTML5 spec.
		if len(p.templateStack) > 0 {
			p.im = inTemplateIM
			return false
		}
		for _, e := range p.oe {
			switch e.DataAtom {
			case a.Dd, a.Dt, a.Li, a.Optgroup, a.Option, a.P, a.Rb, a.Rp, a.Rt, a.Rtc, a.Tbody, a.Td, a.Tfoot, a.Th,
				a.Thead, a.Tr, a.Body, a.Html:
			default:
				return true
			}
		}
	}

	return true
}

func (p *parser) inBodyEndTagFormatting(tagAtom a.Atom, tagName string) {
	// This is the "adoption agency" algorithm, described at
	// https://html.spec.whatwg.org/multipage/syntax.html#adoptionAgency

	// TODO: this is a fairly literal line-by-line translation of that algorithm.
	// Once the code successfully parses the comprehensive test suite, we should
	// refactor this code to be more idiomatic.

	// Steps 1-2
	if current := p.oe.top(); current.Data == tagName && p.afe.index(current) == -1 {
		p.oe.pop()
		return
	}

	// Steps 3-5. The outer loop.
	for i := 0; i < 8; i++ {
		// Step 6. Find the formatting element.
		var formattingElement *Node
		for j := len(p.afe) - 1; j >= 0; j-- {
			if p.afe[j].Type == scopeMarkerNode {
				break
			}
			if p.afe[j].DataAtom == tagAtom {
				formattingElement = p.afe[j]
				break
			}
		}
		if formattingElement == nil {
			p.inBodyEndTagOther(tagAtom, tagName)
			return
		}

		// Step 7. Ignore the tag if formatting element is not in the stack of open elements.
		feIndex := p.oe.index(formattingElement)
		if feIndex == -1 {
			p.afe.remove(formattingElement)
			return
		}
		// Step 8. Ignore the tag if formatting element is not in the scope.
		if !p.elementInScope(defaultScope, tagAtom) {
			// Ignore the tag.
			return
		}

		// Step 9. This step is omitted because it's just a parse error but no need to return.

		// Steps 10-11. Find the furthest block.
		var furthestBlock *Node
		for _, e := range p.oe[feIndex:] {
			if isSpecialElement(e) {
				furthestBlock = e
				break
			}
		}
		if furthestBlock == nil {
			e := p.oe.pop()
			for e != formattingElement {
				e = p.oe.pop()
			}
			p.afe.remove(e)
			return
		}

		// Steps 12-13. Find the common ancestor and bookmark node.
		commonAncestor := p.oe[feIndex-1]
		bookmark := p.afe.index(formattingElement)

		// Step 14. The inner loop. Find the lastNode to reparent.
		lastNode := furthestBlock
		node := furthestBlock
		x := p.oe.index(node)
		// Step 14.1.
		j := 0
		for {
			// Step 14.2.
			j++
			// Step. 14.3.
			x--
			node = p.oe[x]
			// Step 14.4. Go to the next step if node is formatting element.
			if node == formattingElement {
				break
			}
			// Step 14.5. Remove node from the list of active formatting elements if
			// inner loop counter is greater than three and node is in the list of
			// active formatting elements.
			if ni := p.afe.index(node); j > 3 && ni > -1 {
				p.afe.remove(node)
				// If any element of the list of active formatting elements is removed,
				// we need to take care whether bookmark should be decremented or not.
				// This is because the value of bookmark may exceed the size of the
				// list by removing elements from the list.
				if ni <= bookmark {
					bookmark--
				}
				continue
			}
			// Step 14.6. Continue the next inner loop if node is not in the list of
			// active formatting elements.
			if p.afe.index(node) == -1 {
				p.oe.remove(node)
				continue
			}
			// Step 14.7.
			clone := node.clone()
			p.afe[p.afe.index(node)] = clone
			p.oe[p.oe.index(node)] = clone
			node = clone
			// Step 14.8.
			if lastNode == furthestBlock {
				bookmark = p.afe.index(node) + 1
			}
			// Step 14.9.
			if lastNode.Parent != nil {
				lastNode.Parent.RemoveChild(lastNode)
			}
			node.AppendChild(lastNode)
			// Step 14.10.
			lastNode = node
		}

		// Step 15. Reparent lastNode to the common ancestor,
		// or for misnested table nodes, to the foster parent.
		if lastNode.Parent != nil {
			lastNode.Parent.RemoveChild(lastNode)
		}
		switch commonAncestor.DataAtom {
		case a.Table, a.Tbody, a.Tfoot, a.Thead, a.Tr:
			p.fosterParent(lastNode)
		default:
			commonAncestor.AppendChild(lastNode)
		}

		// Steps 16-18. Reparent nodes from the furthest block's children
		// to a clone of the formatting element.
		clone := formattingElement.clone()
		reparentChildren(clone, furthestBlock)
		furthestBlock.AppendChild(clone)

		// Step 19. Fix up the list of active formatting elements.
		if oldLoc := p.afe.index(formattingElement); oldLoc != -1 && oldLoc < bookmark {
			// Move the bookmark with the rest of the list.
			bookmark--
		}
		p.afe.remove(formattingElement)
		p.afe.insert(bookmark, clone)

		// Step 20. Fix up the stack of open elements.
		p.oe.remove(formattingElement)
		p.oe.insert(p.oe.index(furthestBlock)+1, clone)
	}
}

// inBodyEndTagOther performs the "any other end tag" algorithm for inBodyIM.
// "Any other end tag" handling from 12.2.6.5 The rules for parsing tokens in foreign content
// https://html.spec.whatwg.org/multipage/syntax.html#parsing-main-inforeign
func (p *parser) inBodyEndTagOther(tagAtom a.Atom, tagName string) {
	for i := len(p.oe) - 1; i >= 0; i-- {
		// Two element nodes have the same tag if they have the same Data (a
		// string-typed field). As an optimization, for common HTML tags, each
		// Data string is assigned a unique, non-zero DataAtom (a uint32-typed
		// field), since integer comparison is faster than string comparison.
		// Uncommon (custom) tags get a zero DataAtom.
		//
		// The if condition here is equivalent to (p.oe[i].Data == tagName).
		if (p.oe[i].DataAtom == tagAtom) &&
			((tagAtom != 0) || (p.oe[i].Data == tagName)) {
			p.oe = p.oe[:i]
			break
		}
		if isSpecialElement(p.oe[i]) {
			break
		}
	}
}

// Section 12.2.6.4.8.
func textIM(p *parser) bool {
	switch p.tok.Type {
	case ErrorToken:
		p.oe.pop()
	case TextToken:
		d := p.tok.Data
		if n := p.oe.top(); n.DataAtom == a.Textarea && n.FirstChild == nil {
			// Ignore a newline at the start of a <textarea> block.
			if d != "" && d[0] == '\r' {
				d = d[1:]
			}
			if d != "" && d[0] == '\n' {
				d = d[1:]
			}
		}
		if d == "" {
			return true
		}
		p.addText(d)
		return true
	case EndTagToken:
		p.oe.pop()
	}
	p.im = p.originalIM
	p.originalIM = nil
	return p.tok.Type == EndTagToken
}

// Section 12.2.6.4.9.
func inTableIM(p *parser) bool {
	switch p.tok.Type {
	case TextToken:
		p.tok.Data = strings.Replace(p.tok.Data, "\x00", "", -1)
		switch p.oe.top().DataAtom {
		case a.Table, a.Tbody, a.Tfoot, a.Thead, a.Tr:
			if strings.Trim(p.tok.Data, whitespace) == "" {
				p.addText(p.tok.Data)
				return true
			}
		}
	case StartTagToken:
		switch p.tok.DataAtom {
		case a.Caption:
			p.clearStackToContext(tableScope)
			p.afe = append(p.afe, &scopeMarker)
			p.addElement()
			p.im = inCaptionIM
			return true
		case a.Colgroup:
			p.clearStackToContext(tableScope)
			p.addElement()
			p.im = inColumnGroupIM
			return true
		case a.Col:
			p.parseImpliedToken(StartTagToken, a.Colgroup, a.Colgroup.String())
			return false
		case a.Tbody, a.Tfoot, a.Thead:
			p.clearStackToContext(tableScope)
			p.addElement()
			p.im = inTableBodyIM
			return true
		case a.Td, a.Th, a.Tr:
			p.parseImpliedToken(StartTagToken, a.Tbody, a.Tbody.String())
			return false
		case a.Table:
			if p.popUntil(tableScope, a.Table) {
				p.resetInsertionMode()
				return false
			}
			// Ignore the token.
			return true
		case a.Style, a.Script, a.Template:
			return inHeadIM(p)
		case a.Input:
			for _, t := range p.tok.Attr {
				if t.Key == "type" && strings.EqualFold(t.Val, "hidden") {
					p.addElement()
					p.oe.pop()
					return true
				}
			}
			// Otherwise drop down to the default action.
		case a.Form:
			if p.oe.contains(a.Template) || p.form != nil {
				// Ignore the token.
				return true
			}
			p.addElement()
			p.form = p.oe.pop()
		case a.Select:
			p.reconstructActiveFormattingElements()
			switch p.top().DataAtom {
			case a.Table, a.Tbody, a.Tfoot, a.Thead, a.Tr:
				p.fosterParenting = true
			}
			p.addElement()
			p.fosterParenting = false
			p.framesetOK = false
			p.im = inSelectInTableIM
			return true
		}
	case EndTagToken:
		switch p.tok.DataAtom {
		case a.Table:
			if p.popUntil(tableScope, a.Table) {
				p.resetInsertionMode()
				return true
			}
			// Ignore the token.
			return true
		case a.Body, a.Caption, a.Col, a.Colgroup, a.Html, a.Tbody, a.Td, a.Tfoot, a.Th, a.Thead, a.Tr:
			// Ignore the token.
			return true
		case a.Template:
			return inHeadIM(p)
		}
	case CommentToken:
		p.addChild(&Node{
			Type: CommentNode,
			Data: p.tok.Data,
		})
		return true
	case DoctypeToken:
		// Ignore the token.
		return true
	case ErrorToken:
		return inBodyIM(p)
	}

	p.fosterParenting = true
	defer func() { p.fosterParenting = false }()

	return inBodyIM(p)
}

// Section 12.2.6.4.11.
func inCaptionIM(p *parser) bool {
	switch p.tok.Type {
	case StartTagToken:
		switch p.tok.DataAtom {
		case a.Caption, a.Col, a.Colgroup, a.Tbody, a.Td, a.Tfoot, a.Thead, a.Tr:
			if !p.popUntil(tableScope, a.Caption) {
				// Ignore the token.
				return true
			}
			p.clearActiveFormattingElements()
			p.im = inTableIM
			return false
		case a.Select:
			p.reconstructActiveFormattingElements()
			p.addElement()
			p.framesetOK = false
			p.im = inSelectInTableIM
			return true
		}
	case EndTagToken:
		switch p.tok.DataAtom {
		case a.Caption:
			if p.popUntil(tableScope, a.Caption) {
				p.clearActiveFormattingElements()
				p.im = inTableIM
			}
			return true
		case a.Table:
			if !p.popUntil(tableScope, a.Caption) {
				// Ignore the token.
				return true
			}
			p.clearActiveFormattingElements()
			p.im = inTableIM
			return false
		case a.Body, a.Col, a.Colgroup, a.Html, a.Tbody, a.Td, a.Tfoot, a.Th, a.Thead, a.Tr:
			// Ignore the token.
			return true
		}
	}
	return inBodyIM(p)
}

// Section 12.2.6.4.12.
func inColumnGroupIM(p *parser) bool {
	switch p.tok.Type {
	case TextToken:
		s := strings.TrimLeft(p.tok.Data, whitespace)
		if len(s) < len(p.tok.Data) {
			// Add the initial whitespace to the current node.
			p.addText(p.tok.Data[:len(p.tok.Data)-len(s)])
			if s == "" {
				return true
			}
			p.tok.Data = s
		}
	case CommentToken:
		p.addChild(&Node{
			Type: CommentNode,
			Data: p.tok.Data,
		})
		return true
	case DoctypeToken:
		// Ignore the token.
		return true
	case StartTagToken:
		switch p.tok.DataAtom {
		case a.Html:
			return inBodyIM(p)
		case a.Col:
			p.addElement()
			p.oe.pop()
			p.acknowledgeSelfClosingTag()
			return true
		case a.Template:
			return inHeadIM(p)
		}
	case EndTagToken:
		switch p.tok.DataAtom {
		case a.Colgroup:
			if p.oe.top().DataAtom == a.Colgroup {
				p.oe.pop()
				p.im = inTableIM
			}
			return true
		case a.Col:
			// Ignore the token.
			return true
		case a.Template:
			return inHeadIM(p)
		}
	case ErrorToken:
		return inBodyIM(p)
	}
	if p.oe.top().DataAtom != a.Colgroup {
		return true
	}
	p.oe.pop()
	p.im = inTableIM
	return false
}

// Section 12.2.6.4.13.
func inTableBodyIM(p *parser) bool {
	switch p.tok.Type {
	case StartTagToken:
		switch p.tok.DataAtom {
		case a.Tr:
			p.clearStackToContext(tableBodyScope)
			p.addElement()
			p.im = inRowIM
			return true
		case a.Td, a.Th:
			p.parseImpliedToken(StartTagToken, a.Tr, a.Tr.String())
			return false
		case a.Caption, a.Col, a.Colgroup, a.Tbody, a.Tfoot, a.Thead:
			if p.popUntil(tableScope, a.Tbody, a.Thead, a.Tfoot) {
				p.im = inTableIM
				return false
			}
			// Ignore the token.
			return true
		}
	case EndTagToken:
		switch p.tok.DataAtom {
		case a.Tbody, a.Tfoot, a.Thead:
			if p.elementInScope(tableScope, p.tok.DataAtom) {
				p.clearStackToContext(tableBodyScope)
				p.oe.pop()
				p.im = inTableIM
			}
			return true
		case a.Table:
			if p.popUntil(tableScope, a.Tbody, a.Thead, a.Tfoot) {
				p.im = inTableIM
				return false
			}
			// Ignore the token.
			return true
		case a.Body, a.Caption, a.Col, a.Colgroup, a.Html, a.Td, a.Th, a.Tr:
			// Ignore the token.
			return true
		}
	case CommentToken:
		p.addChild(&Node{
			Type: CommentNode,
			Data: p.tok.Data,
		})
		return true
	}

	return inTableIM(p)
}

// Section 12.2.6.4.14.
func inRowIM(p *parser) bool {
	switch p.tok.Type {
	case StartTagToken:
		switch p.tok.DataAtom {
		case a.Td, a.Th:
			p.clearStackToContext(tableRowScope)
			p.addElement()
			p.afe = append(p.afe, &scopeMarker)
			p.im = inCellIM
			return true
		case a.Caption, a.Col, a.Colgroup, a.Tbody, a.Tfoot, a.Thead, a.Tr:
			if p.popUntil(tableScope, a.Tr) {
				p.im = inTableBodyIM
				return false
			}
			// Ignore the token.
			return true
		}
	case EndTagToken:
		switch p.tok.DataAtom {
		case a.Tr:
			if p.popUntil(tableScope, a.Tr) {
				p.im = inTableBodyIM
				return true
			}
			// Ignore the token.
			return true
		case a.Table:
			if p.popUntil(tableScope, a.Tr) {
				p.im = inTableBodyIM
				return false
			}
			// Ignore the token.
			return true
		case a.Tbody, a.Tfoot, a.Thead:
			if p.elementInScope(tableScope, p.tok.DataAtom) {
				p.parseImpliedToken(EndTagToken, a.Tr, a.Tr.String())
				return false
			}
			// Ignore the token.
			return true
		case a.Body, a.Caption, a.Col, a.Colgroup, a.Html, a.Td, a.Th:
			// Ignore the token.
			return true
		}
	}

	return inTableIM(p)
}

// Section 12.2.6.4.15.
func inCellIM(p *parser) bool {
	switch p.tok.Type {
	case StartTagToken:
		switch p.tok.DataAtom {
		case a.Caption, a.Col, a.Colgroup, a.Tbody, a.Td, a.Tfoot, a.Th, a.Thead, a.Tr:
			if p.popUntil(tableScope, a.Td, a.Th) {
				// Close the cell and reprocess.
				p.clearActiveFormattingElements()
				p.im = inRowIM
				return false
			}
			// Ignore the token.
			return true
		case a.Select:
			p.reconstructActiveFormattingElements()
			p.addElement()
			p.framesetOK = false
			p.im = inSelectInTableIM
			return true
		}
	case EndTagToken:
		switch p.tok.DataAtom {
		case a.Td, a.Th:
			if !p.popUntil(tableScope, p.tok.DataAtom) {
				// Ignore the token.
				return true
			}
			p.clearActiveFormattingElements()
			p.im = inRowIM
			return true
		case a.Body, a.Caption, a.Col, a.Colgroup, a.Html:
			// Ignore the token.
			return true
		case a.Table, a.Tbody, a.Tfoot, a.Thead, a.Tr:
			if !p.elementInScope(tableScope, p.tok.DataAtom) {
				// Ignore the token.
				return true
			}
			// Close the cell and reprocess.
			if p.popUntil(tableScope, a.Td, a.Th) {
				p.clearActiveFormattingElements()
			}
			p.im = inRowIM
			return false
		}
	}
	return inBodyIM(p)
}

// Section 12.2.6.4.16.
func inSelectIM(p *parser) bool {
	switch p.tok.Type {
	case TextToken:
		p.addText(strings.Replace(p.tok.Data, "\x00", "", -1))
	case StartTagToken:
		switch p.tok.DataAtom {
		case a.Html:
			return inBodyIM(p)
		case a.Option:
			if p.top().DataAtom == a.Option {
				p.oe.pop()
			}
			p.addElement()
		case a.Optgroup:
			if p.top().DataAtom == a.Option {
				p.oe.pop()
			}
			if p.top().DataAtom == a.Optgroup {
				p.oe.pop()
			}
			p.addElement()
		case a.Select:
			if !p.popUntil(selectScope, a.Select) {
				// Ignore the token.
				return true
			}
			p.resetInsertionMode()
		case a.Input, a.Keygen, a.Textarea:
			if p.elementInScope(selectScope, a.Select) {
				p.parseImpliedToken(EndTagToken, a.Select, a.Select.String())
				return false
			}
			// In order to properly ignore <textarea>, we need to change the tokenizer mode.
			p.tokenizer.NextIsNotRawText()
			// Ignore the token.
			return true
		case a.Script, a.Template:
			return inHeadIM(p)
		case a.Iframe, a.Noembed, a.Noframes, a.Noscript, a.Plaintext, a.Style, a.Title, a.Xmp:
			// Don't let the tokenizer go into raw text mode when there are raw tags
			// to be ignored. These tags should be ignored from the tokenizer
			// properly.
			p.tokenizer.NextIsNotRawText()
			// Ignore the token.
			return true
		}
	case EndTagToken:
		switch p.tok.DataAtom {
		case a.Option:
			if p.top().DataAtom == a.Option {
				p.oe.pop()
			}
		case a.Optgroup:
			i := len(p.oe) - 1
			if p.oe[i].DataAtom == a.Option {
				i--
			}
			if p.oe[i].DataAtom == a.Optgroup {
				p.oe = p.oe[:i]
			}
		case a.Select:
			if !p.popUntil(selectScope, a.Select) {
				// Ignore the token.
				return true
			}
			p.resetInsertionMode()
		case a.Template:
			return inHeadIM(p)
		}
	case CommentToken:
		p.addChild(&Node{
			Type: CommentNode,
			Data: p.tok.Data,
		})
	case DoctypeToken:
		// Ignore the token.
		return true
	case ErrorToken:
		return inBodyIM(p)
	}

	return true
}

// Section 12.2.6.4.17.
func inSelectInTableIM(p *parser) bool {
	switch p.tok.Type {
	case StartTagToken, EndTagToken:
		switch p.tok.DataAtom {
		case a.Caption, a.Table, a.Tbody, a.Tfoot, a.Thead, a.Tr, a.Td, a.Th:
			if p.tok.Type == EndTagToken && !p.elementInScope(tableScope, p.tok.DataAtom) {
				// Ignore the token.
				return true
			}
			// This is like p.popUntil(selectScope, a.Select), but it also
			// matches <math select>, not just <select>. Matching the MathML
			// tag is arguably incorrect (conceptually), but it mimics what
			// Chromium does.
			for i := len(p.oe) - 1; i >= 0; i-- {
				if n := p.oe[i]; n.DataAtom == a.Select {
					p.oe = p.oe[:i]
					break
				}
			}
			p.resetInsertionMode()
			return false
		}
	}
	return inSelectIM(p)
}

// Section 12.2.6.4.18.
func inTemplateIM(p *parser) bool {
	switch p.tok.Type {
	case TextToken, CommentToken, DoctypeToken:
		return inBodyIM(p)
	case StartTagToken:
		switch p.tok.DataAtom {
		case a.Base, a.Basefont, a.Bgsound, a.Link, a.Meta, a.Noframes, a.Script, a.Style, a.Template, a.Title:
			return inHeadIM(p)
		case a.Caption, a.Colgroup, a.Tbody, a.Tfoot, a.Thead:
			p.templateStack.pop()
			p.templateStack = append(p.templateStack, inTableIM)
			p.im = inTableIM
			return false
		case a.Col:
			p.templateStack.pop()
			p.templateStack = append(p.templateStack, inColumnGroupIM)
			p.im = inColumnGroupIM
			return false
		case a.Tr:
			p.templateStack.pop()
			p.templateStack = append(p.templateStack, inTableBodyIM)
			p.im = inTableBodyIM
			return false
		case a.Td, a.Th:
			p.templateStack.pop()
			p.templateStack = append(p.templateStack, inRowIM)
			p.im = inRowIM
			return false
		default:
			p.templateStack.pop()
			p.templateStack = append(p.templateStack, inBodyIM)
			p.im = inBodyIM
			return false
		}
	case EndTagToken:
		switch p.tok.DataAtom {
		case a.Template:
			return inHeadIM(p)
		default:
			// Ignore the token.
			return true
		}
	case ErrorToken:
		if !p.oe.contains(a.Template) {
			// Ignore the token.
			return true
		}
		// TODO: remove this divergence from the HTML5 spec.
		//
		// See https://bugs.chromium.org/p/chromium/issues/detail?id=829668
		p.generateImpliedEndTags()
		for i := len(p.oe) - 1; i >= 0; i-- {
			if n := p.oe[i]; n.Namespace == "" && n.DataAtom == a.Template {
				p.oe = p.oe[:i]
				break
			}
		}
		p.clearActiveFormattingElements()
		p.templateStack.pop()
		p.resetInsertionMode()
		return false
	}
	return false
}

// Section 12.2.6.4.19.
func afterBodyIM(p *parser) bool {
	switch p.tok.Type {
	case ErrorToken:
		// Stop parsing.
		return true
	case TextToken:
		s := strings.TrimLeft(p.tok.Data, whitespace)
		if len(s) == 0 {
			// It was all whitespace.
			return inBodyIM(p)
		}
	case StartTagToken:
		if p.tok.DataAtom == a.Html {
			return inBodyIM(p)
		}
	case EndTagToken:
		if p.tok.DataAtom == a.Html {
			if !p.fragment {
				p.im = afterAfterBodyIM
			}
			return true
		}
	case CommentToken:
		// The comment is attached to the <html> element.
		if len(p.oe) < 1 || p.oe[0].DataAtom != a.Html {
			panic("html: bad parser state: <html> element not found, in the after-body insertion mode")
		}
		p.oe[0].AppendChild(&Node{
			Type: CommentNode,
			Data: p.tok.Data,
		})
		return true
	}
	p.im = inBodyIM
	return false
}

// Section 12.2.6.4.20.
func inFramesetIM(p *parser) bool {
	switch p.tok.Type {
	case CommentToken:
		p.addChild(&Node{
			Type: CommentNode,
			Data: p.tok.Data,
		})
	case TextToken:
		// Ignore all text but whitespace.
		s := strings.Map(func(c rune) rune {
			switch c {
			case ' ', '\t', '\n', '\f', '\r':
				return c
			}
			return -1
		}, p.tok.Data)
		if s != "" {
			p.addText(s)
		}
	case StartTagToken:
		switch p.tok.DataAtom {
		case a.Html:
			return inBodyIM(p)
		case a.Frameset:
			p.addElement()
		case a.Frame:
			p.addElement()
			p.oe.pop()
			p.acknowledgeSelfClosingTag()
		case a.Noframes:
			return inHeadIM(p)
		}
	case EndTagToken:
		switch p.tok.DataAtom {
		case a.Frameset:
			if p.oe.top().DataAtom != a.Html {
				p.oe.pop()
				if p.oe.top().DataAtom != a.Frameset {
					p.im = afterFramesetIM
					return true
				}
			}
		}
	default:
		// Ignore the token.
	}
	return true
}

// Section 12.2.6.4.21.
func afterFramesetIM(p *parser) bool {
	switch p.tok.Type {
	case CommentToken:
		p.addChild(&Node{
			Type: CommentNode,
			Data: p.tok.Data,
		})
	case TextToken:
		// Ignore all text but whitespace.
		s := strings.Map(func(c rune) rune {
			switch c {
			case ' ', '\t', '\n', '\f', '\r':
				return c
			}
			return -1
		}, p.tok.Data)
		if s != "" {
			p.addText(s)
		}
	case StartTagToken:
		switch p.tok.DataAtom {
		case a.Html:
			return inBodyIM(p)
		case a.Noframes:
			return inHeadIM(p)
		}
	case EndTagToken:
		switch p.tok.DataAtom {
		case a.Html:
			p.im = afterAfterFramesetIM
			return true
		}
	default:
		// Ignore the token.
	}
	return true
}

// Section 12.2.6.4.22.
func afterAfterBodyIM(p *parser) bool {
	switch p.tok.Type {
	case ErrorToken:
		// Stop parsing.
		return true
	case TextToken:
		s := strings.TrimLeft(p.tok.Data, whitespace)
		if len(s) == 0 {
			// It was all whitespace.
			return inBodyIM(p)
		}
	case StartTagToken:
		if p.tok.DataAtom == a.Html {
			return inBodyIM(p)
		}
	case CommentToken:
		p.doc.AppendChild(&Node{
			Type: CommentNode,
			Data: p.tok.Data,
		})
		return true
	case DoctypeToken:
		return inBodyIM(p)
	}
	p.im = inBodyIM
	return false
}

// Section 12.2.6.4.23.
func afterAfterFramesetIM(p *parser) bool {
	switch p.tok.Type {
	case CommentToken:
		p.doc.AppendChild(&Node{
			Type: CommentNode,
			Data: p.tok.Data,
		})
	case TextToken:
		// Ignore all text but whitespace.
		s := strings.Map(func(c rune) rune {
			switch c {
			case ' ', '\t', '\n', '\f', '\r':
				return c
			}
			return -1
		}, p.tok.Data)
		if s != "" {
			p.tok.Data = s
			return inBodyIM(p)
		}
	case StartTagToken:
		switch p.tok.DataAtom {
		case a.Html:
			return inBodyIM(p)
		case a.Noframes:
			return inHeadIM(p)
		}
	case DoctypeToken:
		return inBodyIM(p)
	default:
		// Ignore the token.
	}
	return true
}

func ignoreTheRemainingTokens(p *parser) bool {
	return true
}

const whitespaceOrNUL = whitespace + "\x00"

// Section 12.2.6.5
func parseForeignContent(p *parser) bool {
	switch p.tok.Type {
	case TextToken:
		if p.framesetOK {
			p.framesetOK = strings.TrimLeft(p.tok.Data, whitespaceOrNUL) == ""
		}
		p.tok.Data = strings.Replace(p.tok.Data, "\x00", "\ufffd", -1)
		p.addText(p.tok.Data)
	case CommentToken:
		p.addChild(&Node{
			Type: CommentNode,
			Data: p.tok.Data,
		})
	case StartTagToken:
		if !p.fragment {
			b := breakout[p.tok.Data]
			if p.tok.DataAtom == a.Font {
			loop:
				for _, attr := range p.tok.Attr {
					switch attr.Key {
					case "color", "face", "size":
						b = true
						break loop
					}
				}
			}
			if b {
				for i := len(p.oe) - 1; i >= 0; i-- {
					n := p.oe[i]
					if n.Namespace == "" || htmlIntegrationPoint(n) || mathMLTextIntegrationPoint(n) {
						p.oe = p.oe[:i+1]
						break
					}
				}
				return false
			}
		}
		current := p.adjustedCurrentNode()
		switch current.Namespace {
		case "math":
			adjustAttributeNames(p.tok.Attr, mathMLAttributeAdjustments)
		case "svg":
			// Adjust SVG tag names. The tokenizer lower-cases tag names, but
			// SVG wants e.g. "foreignObject" with a capital second "O".
			if x := svgTagNameAdjustments[p.tok.Data]; x != "" {
				p.tok.DataAtom = a.Lookup([]byte(x))
				p.tok.Data = x
			}
			adjustAttributeNames(p.tok.Attr, svgAttributeAdjustments)
		default:
			panic("html: bad parser state: unexpected namespace")
		}
		adjustForeignAttributes(p.tok.Attr)
		namespace := current.Namespace
		p.addElement()
		p.top().Namespace = namespace
		if namespace != "" {
			// Don't let the tokenizer go into raw text mode in foreign content
			// (e.g. in an SVG <title> tag).
			p.tokenizer.NextIsNotRawText()
		}
		if p.hasSelfClosingToken {
			p.oe.pop()
			p.acknowledgeSelfClosingTag()
		}
	case EndTagToken:
		for i := len(p.oe) - 1; i >= 0; i-- {
			if p.oe[i].Namespace == "" {
				return p.im(p)
			}
			if strings.EqualFold(p.oe[i].Data, p.tok.Data) {
				p.oe = p.oe[:i]
				break
			}
		}
		return true
	default:
		// Ignore the token.
	}
	return true
}

// Section 12.2.4.2.
func (p *parser) adjustedCurrentNode() *Node {
	if len(p.oe) == 1 && p.fragment && p.context != nil {
		return p.context
	}
	return p.oe.top()
}

// Section 12.2.6.
func (p *parser) inForeignContent() bool {
	if len(p.oe) == 0 {
		return false
	}
	n := p.adjustedCurrentNode()
	if n.Namespace == "" {
		return false
	}
	if mathMLTextIntegrationPoint(n) {
		if p.tok.Type == StartTagToken && p.tok.DataAtom != a.Mglyph && p.tok.DataAtom != a.Malignmark {
			return false
		}
		if p.tok.Type == TextToken {
			return false
		}
	}
	if n.Namespace == "math" && n.DataAtom == a.AnnotationXml && p.tok.Type == StartTagToken && p.tok.DataAtom == a.Svg {
		return false
	}
	if htmlIntegrationPoint(n) && (p.tok.Type == StartTagToken || p.tok.Type == TextToken) {
		return false
	}
	if p.tok.Type == ErrorToken {
		return false
	}
	return true
}

// parseImpliedToken parses a token as though it had appeared in the parser's
// input.
func (p *parser) parseImpliedToken(t TokenType, dataAtom a.Atom, data string) {
	realToken, selfClosing := p.tok, p.hasSelfClosingToken
	p.tok = Token{
		Type:     t,
		DataAtom: dataAtom,
		Data:     data,
	}
	p.hasSelfClosingToken = false
	p.parseCurrentToken()
	p.tok, p.hasSelfClosingToken = realToken, selfClosing
}

// parseCurrentToken runs the current token through the parsing routines
// until it is consumed.
func (p *parser) parseCurrentToken() {
	if p.tok.Type == SelfClosingTagToken {
		p.hasSelfClosingToken = true
		p.tok.Type = StartTagToken
	}

	consumed := false
	for !consumed {
		if p.inForeignContent() {
			consumed = parseForeignContent(p)
		} else {
			consumed = p.im(p)
		}
	}

	if p.hasSelfClosingToken {
		// This is a parse error, but ignore it.
		p.hasSelfClosingToken = false
	}
}

func (p *parser) parse() error {
	// Iterate until EOF. Any other error will cause an early return.
	var err error
	for err != io.EOF {
		// CDATA sections are allowed only in foreign content.
		n := p.oe.top()
		p.tokenizer.AllowCDATA(n != nil && n.Namespace != "")
		// Read and parse the next token.
		p.tokenizer.Next()
		p.tok = p.tokenizer.Token()
		if p.tok.Type == ErrorToken {
			err = p.tokenizer.Err()
			if err != nil && err != io.EOF {
				return err
			}
		}
		p.parseCurrentToken()
	}
	return nil
}

// Parse returns the parse tree for the HTML from the given Reader.
//
// It implements the HTML5 parsing algorithm
// (https://html.spec.whatwg.org/multipage/syntax.html#tree-construction),
// which is very complicated. The resultant tree can contain implicitly created
// nodes that have no explicit <tag> listed in r's data, and nodes' parents can
// differ from the nesting implied by a naive processing of start and end
// <tag>s. Conversely, explicit <tag>s in r's data can be silently dropped,
// with no corresponding node in the resulting tree.
//
// The input is assumed to be UTF-8 encoded.
func Parse(r io.Reader) (*Node, error) {
	return ParseWithOptions(r)
}

// ParseFragment parses a fragment of HTML and returns the nodes that were
// found. If the fragment is the InnerHTML for an existing element, pass that
// element in context.
//
// It has the same intricacies as Parse.
func ParseFragment(r io.Reader, context *Node) ([]*Node, error) {
	return ParseFragmentWithOptions(r, context)
}

// ParseOption configures a parser.
type ParseOption func(p *parser)

// ParseOptionEnableScripting configures the scripting flag.
// https://html.spec.whatwg.org/multipage/webappapis.html#enabling-and-disabling-scripting
//
// By default, scripting is enabled.
func ParseOptionEnableScripting(enable bool) ParseOption {
	return func(p *parser) {
		p.scripting = enable
	}
}

// ParseWithOptions is like Parse, with options.
func ParseWithOptions(r io.Reader, opts ...ParseOption) (*Node, error) {
	p := &parser{
		tokenizer: NewTokenizer(r),
		doc: &Node{
			Type: DocumentNode,
		},
		scripting:  true,
		framesetOK: true,
		im:         initialIM,
	}

	for _, f := range opts {
		f(p)
	}

	if err := p.parse(); err != nil {
		return nil, err
	}
	return p.doc, nil
}

// ParseFragmentWithOptions is like ParseFragment, with options.
func ParseFragmentWithOptions(r io.Reader, context *Node, opts ...ParseOption) ([]*Node, error) {
	contextTag := ""
	if context != nil {
		if context.Type != ElementNode {
			return nil, errors.New("html: ParseFragment of non-element Node")
		}
		// The next check isn't just context.DataAtom.String() == context.Data because
		// it is valid to pass an element whose tag isn't a known atom. For example,
		// DataAtom == 0 and Data = "tagfromthefuture" is perfectly consistent.
		if context.DataAtom != a.Lookup([]byte(context.Data)) {
			return nil, fmt.Errorf("html: inconsistent Node: DataAtom=%q, Data=%q", context.DataAtom, context.Data)
		}
		contextTag = context.DataAtom.String()
	}
	p := &parser{
		doc: &Node{
			Type: DocumentNode,
		},
		scripting: true,
		fragment:  true,
		context:   context,
	}
	if context != nil && context.Namespace != "" {
		p.tokenizer = NewTokenizer(r)
	} else {
		p.tokenizer = NewTokenizerFragment(r, contextTag)
	}

	for _, f := range opts {
		f(p)
	}

	root := &Node{
		Type:     ElementNode,
		DataAtom: a.Html,
		Data:     a.Html.String(),
	}
	p.doc.AppendChild(root)
	p.oe = nodeStack{root}
	if context != nil && context.DataAtom == a.Template {
		p.templateStack = append(p.templateStack, inTemplateIM)
	}
	p.resetInsertionMode()

	for n := context; n != nil; n = n.Parent {
		if n.Type == ElementNode && n.DataAtom == a.Form {
			p.form = n
			break
		}
	}

	if err := p.parse(); err != nil {
		return nil, err
	}

	parent := p.doc
	if context != nil {
		parent = root
	}

	var result []*Node
	for c := parent.FirstChild; c != nil; {
		next := c.NextSibling
		parent.RemoveChild(c)
		result = append(result, c)
		c = next
	}
	return result, nil
}
