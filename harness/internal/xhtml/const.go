// Copyright 2011 The Go Authors. All rights reserved.
// Use of this source code is governed by a BSD-style
// license that can be found in the LICENSE file.

package xhtml

// Section 12.2.4.2 of the HTML5 specification says "The following elements
// have varying levels of special parsing rules".
// https://html.spec.whatwg.org/multipage/syntax.html#the-stack-of-open-elements
var isSpecialElementMap = map[string]bool{
	"address":    true,
	"applet":     true,
	"area":       true,
	"article":    true,
	"aside":      true,
	"base":       true,
	"basefont":   true,
	"bgsound":    true,
	"blockquote": true,
	"body":       true,
	"br":         true,
	"button":     true,
	"caption":    true,
	"center":     true,
	"col":        true,
	"colgroup":   true,
	"dd":         true,
	"details":    true,
	"dir":        true,
	"div":        true,
	"dl":         true,
	"dt":         true,
	"embed":      true,
	"fieldset":   true,
	"figcaption": true,
	"figure":     true,
	"footer":     true,
	"form":       true,
	"frame":      true,
	"frameset":   true,
	"h1":         true,
	"h2":         true,
	"h3":         true,
	"h4":         true,
	"h5":         true,
	"h6":         true,
	"head":       true,
	"header":     true,
	"hgroup":     true,
	"hr":         true,
	"html":       true,
	"iframe":     true,
	"img":        true,
	"input":      true,
	"keygen":     true, // "keygen" has been removed from the spec, but are kept here for backwards compatibility.
	"li":         true,
	"link":       true,
	"listing":    true,
	"main":       true,
	"marquee":    true,
	"menu":       true,
	"meta":       true,
	"nav":        true,
	"noembed":    true,
	"noframes":   true,
	"noscript":   true,
	"object":     true,
	"ol":         true,
	"p":          true,
	"param":      true,
	"plaintext":  true,
	"pre":        true,
	"script":     true,
	"section":    true,
	"select":     true,
	"source":     true,
	"style":      true,
	"summary":    true,
	"table":      true,
	"tbody":      true,
	"td":         true,
	"template":   true,
	"textarea":   true,
	"tfoot":      true,
	"th":         true,
	"thead":      true,
	"title":      true,
	"tr":         true,
	"track":      true,
	"ul":         true,
	"wbr":        true,
	"xmp":        true,
}

func isSpecialElement(element *Node) bool {
	switch element.Namespace {
	case "", "html":
		return isSpecialElementMap[element.Data]
	case "math":
		switch element.Data {
		case "mi", "mo", "mn", "ms", "mtext", "annotation-xml":
			return true
		}
	case "svg":
		switch element.Data {
		case "foreignObject", "desc", "title":
			return true
		}
	}
	return false
}
