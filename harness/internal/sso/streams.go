package sso

import (
	"fmt"
	"math/rand"
	"strings"
	"time"

	"verif/harness/internal/idp"
)

var relays = []string{"", "relay-1", "a b&c=d", "<\"'>", "ü€😀", "x\ny", strings.Repeat("r", 81), strings.Repeat("long-relay/", 40)}
var flagsSP = []*string{nil, idp.S("false"), idp.S("0"), idp.S("true"), idp.S("1")}
var flagsIdP = []string{"", "false", "true", "1"}
var styles = []idp.Style{idp.DefaultStyle, {P: "p", A: "a"}, {P: "", A: "saml"}, {P: "samlp", A: ""}, {P: "samlp", A: "saml", Decl: true}, {P: "samlp", A: "saml", Indent: true}, {P: "samlp", A: "saml", SingleQuote: true}}

func pick[T any](r *rand.Rand, xs []T) T { return xs[r.Intn(len(xs))] }

func newScenario(stream string, id int) *Scenario {
	return &Scenario{Stream: stream, SP: BaseSP(nil, true), Registered: true, Req: BaseReq(fmt.Sprintf("_req%d", id)), Style: idp.DefaultStyle, Transport: "redirect", KeyInfo: true}
}

// StreamValid: conformant, unsigned, signing not required
func StreamValid(r *rand.Rand, n int) []*Scenario {
	var out []*Scenario
	for i := 0; i < n; i++ {
		s := newScenario("valid", i)
		s.Transport = pick(r, []string{"redirect", "post"})
		s.Relay = pick(r, relays)
		s.Style = pick(r, styles)
		s.SP = BaseSP(pick(r, flagsSP[:3]), r.Intn(2) == 0)
		s.Want = pick(r, flagsIdP[:2])
		if r.Intn(3) == 0 {
			s.Req.Destination = nil
		}
		if r.Intn(3) == 0 {
			s.Req.ProtocolBinding = pick(r, []*string{nil, idp.S(idp.RedirBinding), idp.S(idp.PostBinding)})
		}
		if r.Intn(4) == 0 {
			s.Req.NameIDPolicy = true
		}
		if r.Intn(4) == 0 {
			t := time.Now().UTC()
			s.Req.NotBefore = idp.S(t.Add(-time.Minute).Format(TimeFmt))
			s.Req.NotOnOrAfter = idp.S(t.Add(5 * time.Minute).Format(TimeFmt))
		}
		if s.Transport == "redirect" && r.Intn(4) == 0 {
			s.Encoding = idp.S(idp.Deflate)
		}
		out = append(out, s)
	}
	return out
}

// StreamConjuncts: each scenario violates (or probes the boundary of) exactly one validity condition
func StreamConjuncts(r *rand.Rand) []*Scenario {
	var out []*Scenario
	n := 0
	add := func(mut string, f func(s *Scenario)) {
		for _, tr := range []string{"redirect", "post"} {
			s := newScenario("conjunct", 1000+n)
			n++
			s.Mut = mut
			s.Transport = tr
			s.Relay = pick(r, relays)
			f(s)
			out = append(out, s)
		}
	}
	now := time.Now().UTC()
	at := func(d time.Duration) *string { return idp.S(now.Add(d).Format(TimeFmt)) }
	add("c:empty-request", func(s *Scenario) { s.RawMsg = idp.S("") })
	add("c:sigalg-without-signature", func(s *Scenario) {
		s.ExtraQuery = []idp.Param{idp.Q("SigAlg", idp.RSASHA256)}
		if s.Transport == "post" {
			s.ExtraBody, s.ExtraQuery = s.ExtraQuery, nil
		}
	})
	add("c:unknown-encoding", func(s *Scenario) { s.Encoding = idp.S("urn:unknown:encoding") })
	add("c:explicit-deflate", func(s *Scenario) {
		s.Encoding = idp.S(idp.Deflate)
		if s.Transport == "post" {
			s.Mut = "post-deflated"
		}
	})
	add("c:not-base64", func(s *Scenario) { s.RawMsg = idp.S("%%%not base64%%%") })
	add("c:base64-garbage", func(s *Scenario) { s.RawMsg = idp.S("Z2FyYmFnZSBub3QgeG1s") })
	add("c:redirect-not-deflated", func(s *Scenario) { s.NoDeflate = true })
	add("c:truncated-xml", func(s *Scenario) { s.Req.Extra = "<unclosed" })
	add("c:trailing-garbage", func(s *Scenario) { s.Req.Trailing = "<<<garbage" })
	add("c:trailing-second-root", func(s *Scenario) { s.Req.Trailing = "<extra/>" })
	add("c:trailing-whitespace-comment", func(s *Scenario) { s.Req.Trailing = "\n<!-- ok -->\n" })
	add("c:issuer-absent", func(s *Scenario) { s.Req.Issuer = nil })
	add("c:issuer-empty", func(s *Scenario) { s.Req.Issuer = idp.S("") })
	add("c:issuer-unregistered", func(s *Scenario) { s.Req.Issuer = idp.S("https://other.example/metadata") })
	add("c:issuer-trailing-slash", func(s *Scenario) { s.Req.Issuer = idp.S(SPEntity + "/") })
	add("c:issuer-case", func(s *Scenario) { s.Req.Issuer = idp.S("https://SP.example/metadata") })
	add("c:issuer-whitespace", func(s *Scenario) { s.Req.Issuer = idp.S(" " + SPEntity + " ") })
	add("c:sp-not-registered", func(s *Scenario) { s.Registered = false })
	add("c:id-absent", func(s *Scenario) { s.Req.ID = nil })
	add("c:id-empty", func(s *Scenario) { s.Req.ID = idp.S("") })
	add("c:version-absent", func(s *Scenario) { s.Req.Version = nil })
	add("c:version-empty", func(s *Scenario) { s.Req.Version = idp.S("") })
	add("c:destination-absent", func(s *Scenario) { s.Req.Destination = nil })
	add("c:destination-empty", func(s *Scenario) { s.Req.Destination = idp.S("") })
	for i, d := range []string{"http://idp.example/saml/SSO", "https://idp.example.evil/saml/SSO", "https://idp.example/saml/sso", "https://idp.example/saml/SSO/", "https://IDP.example/saml/SSO", "https://idp.example/SSO", "https://idp.example/saml/SSO?x=1", "https://idp.example/saml/SLO"} {
		d := d
		add(fmt.Sprintf("c:destination-other-%d", i), func(s *Scenario) { s.Req.Destination = idp.S(d) })
	}
	for _, d := range []time.Duration{-10 * 365 * 24 * time.Hour, -time.Hour, -10 * time.Second, 10 * time.Second, time.Hour, 10 * 365 * 24 * time.Hour} {
		d := d
		add(fmt.Sprintf("c:notbefore%+d", int64(d/time.Second)), func(s *Scenario) { s.Req.NotBefore = at(d) })
		add(fmt.Sprintf("c:notonorafter%+d", int64(d/time.Second)), func(s *Scenario) { s.Req.NotOnOrAfter = at(d) })
		add(fmt.Sprintf("c:window%+d", int64(d/time.Second)), func(s *Scenario) { s.Req.NotBefore = at(d - time.Minute); s.Req.NotOnOrAfter = at(d + time.Minute) })
	}
	for i, lex := range []string{"yesterday", "2024-01-01", now.Add(time.Hour).Format("2006-01-02T15:04:05+01:00"), now.Add(time.Hour).Format("2006-01-02T15:04:05"), now.Add(time.Hour).Format("2006-01-02T15:04:05.000000000Z"), now.Add(time.Hour).Format("2006-01-02T15:04:05Z"), now.Add(time.Hour).Format("2006-01-02 15:04:05Z"), " " + now.Add(time.Hour).Format(TimeFmt),
		now.Add(time.Hour).Format("2006-01-02T15:04:05.000000") + "+02:00", now.Add(-time.Hour).Format("2006-01-02T15:04:05.000000") + "+02:00", now.Add(time.Hour).Format("2006-01-02T15:04:05.000000") + " or so",
		now.Add(time.Hour).Format("2006-01-02T15:04:05.000000") + "Z+1y", now.Add(time.Hour).Format("2006-01-02T15:04:05.0000000") + "Z", now.Add(time.Hour).Format("2006-01-02T15:04:05.000000") + "z", now.Add(time.Hour).Format(TimeFmt) + " ",
		now.Add(time.Hour).Format(TimeFmt) + "Z", now.Add(time.Hour).Format("2006-01-02T15:04:05") + ".Z", now.Add(time.Hour).Format("2006-01-02T15:04:05") + ",5Z", now.Add(time.Hour).Format("2006-01-02T15:04") + "Z",
		now.Add(time.Hour).Format("2006-01-02") + "T24:00:00Z", now.Add(time.Hour).Format("2006") + "-13-01T00:00:00Z", now.Add(time.Hour).Format("2006-01-02T15:04:05") + "+00:00", now.Add(time.Hour).Format("20060102T150405Z")} {
		lex := lex
		add(fmt.Sprintf("c:notonorafter-lexical-%d", i), func(s *Scenario) { s.Req.NotOnOrAfter = idp.S(lex) })
		add(fmt.Sprintf("c:notbefore-lexical-%d", i), func(s *Scenario) { s.Req.NotBefore = idp.S(lex) })
	}
	for i, lex := range []string{"0001-01-01T00:00:00Z", "0001-01-01T00:00:00.000Z", "0001-01-01T00:00:01Z", "1970-01-01T00:00:00Z", "9999-12-31T23:59:59Z"} {
		lex := lex
		add(fmt.Sprintf("c:notonorafter-extreme-%d", i), func(s *Scenario) { s.Req.NotOnOrAfter = idp.S(lex) })
		add(fmt.Sprintf("c:notbefore-extreme-%d", i), func(s *Scenario) { s.Req.NotBefore = idp.S(lex) })
		add(fmt.Sprintf("c:both-extreme-%d", i), func(s *Scenario) { s.Req.NotBefore = at(-time.Minute); s.Req.NotOnOrAfter = idp.S(lex) })
	}
	add("c:conditions-empty-attrs", func(s *Scenario) { s.Req.NotBefore = idp.S(""); s.Req.NotOnOrAfter = idp.S("") })
	add("c:conditions-no-attrs", func(s *Scenario) { s.Req.Conditions = true })
	add("c:wrong-root", func(s *Scenario) {
		s.RawMsgDoc(`<samlp:LogoutRequest xmlns:samlp="urn:oasis:names:tc:SAML:2.0:protocol" xmlns:saml="urn:oasis:names:tc:SAML:2.0:assertion" ID="_x" Version="2.0"><saml:Issuer>` + SPEntity + `</saml:Issuer></samlp:LogoutRequest>`)
	})
	add("c:no-namespace-root", func(s *Scenario) {
		s.RawMsgDoc(`<AuthnRequest ID="_x" Version="2.0"><Issuer>` + SPEntity + `</Issuer></AuthnRequest>`)
	})
	add("c:issuer-wrong-namespace", func(s *Scenario) {
		s.RawMsgDoc(`<samlp:AuthnRequest xmlns:samlp="urn:oasis:names:tc:SAML:2.0:protocol" ID="_x" Version="2.0"><samlp:Issuer>` + SPEntity + `</samlp:Issuer></samlp:AuthnRequest>`)
	})
	return out
}

// RawMsgDoc sends the given document with the transport's normal encoding
func (s *Scenario) RawMsgDoc(doc string) {
	if s.Transport == "redirect" {
		s.RawMsg = idp.S(idp.DeflateB64([]byte(doc)))
	} else {
		s.RawMsg = idp.S(idp.B64([]byte(doc)))
	}
}

var mutsRedirect = []string{"", "", "malformed-sig-param", "malformed-sig-param-semicolon", "malformed-sig-params-both", "malformed-sig-params-both", "bitflip-sig", "bitflip-signed-msg", "strip-sig", "sigalg-only", "sig-only", "swap-relay", "alg-subst", "move-to-post", "param-split", "split-forged-body"}
var mutsPost = []string{"", "", "bitflip-msg", "bitflip-sigvalue", "foreign-keyinfo", "wrap-cert", "move-to-redirect", "move-to-redirect-tampered", "post-detached-sig", "post-detached-sig-bad", "param-split"}

// StreamSigned: signing requirement flags x signing x mutations of validly signed messages
func StreamSigned(r *rand.Rand, n int) []*Scenario {
	var out []*Scenario
	for i := 0; i < n; i++ {
		s := newScenario("signed", 2000+i)
		s.SP = BaseSP(pick(r, flagsSP), r.Intn(5) != 0)
		s.Want = pick(r, flagsIdP)
		s.Transport = pick(r, []string{"redirect", "post"})
		s.Relay = pick(r, relays)
		s.Sign = pick(r, []string{"", idp.RSASHA1, idp.RSASHA256, idp.RSASHA256})
		s.SignKey = pick(r, []string{"sp", "sp", "sp", "other"})
		s.KeyInfo = r.Intn(4) != 0
		s.SigLast = r.Intn(3) == 0
		if s.Sign != "" {
			if s.Transport == "redirect" {
				s.Mut = pick(r, mutsRedirect)
			} else {
				s.Mut = pick(r, mutsPost)
			}
		} else if s.Transport == "post" && r.Intn(6) == 0 {
			s.Mut = pick(r, []string{"post-detached-sig", "post-detached-sig-bad"})
		}
		if len(s.SP.Certs) > 0 && r.Intn(8) == 0 {
			// the SP registered its certificate for encryption only: there is no signing certificate to verify anything with
			s.SP.Certs[0].Use = "encryption"
			if s.Mut == "" {
				s.Mut = "cert-for-encryption-only"
			}
		}
		out = append(out, s)
	}
	return out
}

// acsLocation: mostly https URLs, but also the other shapes metadata may legally or sloppily carry: plain http on an
// intranet host, a URL with a port, a scheme-less or path-only location, leading white space
// (relative locations only for POST entries: http.Redirect resolves a relative Location against the request path, which the
// projection does not model; a leading blank makes html/template replace the action by its #ZgotmplZ placeholder -- C17's subject)
func acsLocation(r *rand.Rand, j int, suffix, binding string) string {
	switch r.Intn(12) {
	case 0:
		return fmt.Sprintf("http://intranet.example:8080/acs%d%s", j, suffix)
	case 1:
		if binding == idp.PostBinding {
			return fmt.Sprintf("sp.example/acs%d%s", j, suffix)
		}
	case 2:
		if binding == idp.PostBinding {
			return fmt.Sprintf("/saml/acs%d%s", j, suffix)
		}
	}
	return fmt.Sprintf("https://sp.example/acs%d%s", j, suffix)
}

var acsBindings = []string{idp.PostBinding, idp.RedirBinding, idp.ArtifactBinding, idp.PAOSBinding, "urn:example:unknown-binding"}

// StreamBindings: ACS shapes (supported / unsupported bindings), late failures, persistence faults
func StreamBindings(r *rand.Rand, n int) []*Scenario {
	var out []*Scenario
	for i := 0; i < n; i++ {
		s := newScenario("bindings", 3000+i)
		k := 1 + r.Intn(3)
		if r.Intn(12) == 0 {
			k = 0
		}
		s.SP.ACS = nil
		for j := 0; j < k; j++ {
			bn := pick(r, acsBindings)
			s.SP.ACS = append(s.SP.ACS, idp.ACS{Index: pick(r, []string{"0", "1", "2", "7"}), IsDefault: pick(r, []string{"", "", "true", "false", "1"}),
				Binding: bn, Location: acsLocation(r, j, pick(r, []string{"", "", "?x=1"}), bn)})
		}
		s.Req.ProtocolBinding = pick(r, []*string{nil, idp.S(idp.PostBinding), idp.S(idp.RedirBinding), idp.S(idp.ArtifactBinding), idp.S("urn:example:unlisted")})
		s.Transport = pick(r, []string{"redirect", "post"})
		s.Relay = pick(r, relays)
		switch r.Intn(6) {
		case 0:
			s.Mut = "late:bad-destination"
			s.Req.Destination = idp.S("https://elsewhere.example/SSO")
		case 1:
			s.Mut = "late:persist-fault"
			s.Fault = &idp.Fault{Op: "CreateAuthRequest", Nth: 1, Kind: "error"}
		case 2:
			s.Mut = "early:sp-lookup-fault"
			s.Fault = &idp.Fault{Op: "GetEntityByID", Nth: 1, Kind: "error"}
		case 3:
			s.Mut = "pre:key-fault"
			s.Fault = &idp.Fault{Op: "GetResponseSigningKey", Nth: 1, Kind: pick(r, []string{"error", "nilrecord", "nokey", "nocert", "emptycert"})}
		}
		out = append(out, s)
	}
	return out
}

// StreamForeign: the request names consumer URLs / indexes / destinations that are not registered
func StreamForeign(r *rand.Rand, n int) []*Scenario {
	var out []*Scenario
	for i := 0; i < n; i++ {
		s := newScenario("foreign", 4000+i)
		s.Transport = pick(r, []string{"redirect", "post"})
		s.Relay = pick(r, relays)
		s.Req.ACSURL = pick(r, []*string{idp.S("https://evil.example/acs"), idp.S("https://sp.example/acs/post"), idp.S("javascript:alert(1)"), nil})
		s.Req.ACSIndex = pick(r, []*string{nil, idp.S("1"), idp.S("99")})
		s.Req.ProtocolBinding = pick(r, []*string{nil, idp.S(idp.PostBinding), idp.S(idp.RedirBinding), idp.S("urn:example:unlisted")})
		s.ExtraQuery = pick(r, [][]idp.Param{nil, {idp.Q("AssertionConsumerServiceURL", "https://evil.example/acs")}, {idp.Q("acs", "https://evil.example/acs"), idp.Q("Destination", "https://evil.example")}})
		if r.Intn(3) == 0 { // make it fail late so that an error reply is delivered somewhere
			s.Mut = "late:bad-destination"
			s.Req.Destination = idp.S("https://evil.example/SSO")
		}
		k := 1 + r.Intn(3)
		s.SP.ACS = nil
		for j := 0; j < k; j++ {
			bn := pick(r, acsBindings[:2])
			s.SP.ACS = append(s.SP.ACS, idp.ACS{Index: fmt.Sprint(j), IsDefault: pick(r, []string{"", "true"}), Binding: bn,
				Location: acsLocation(r, j, pick(r, []string{"", "?tenant=a&x=1"}), bn)})
		}
		out = append(out, s)
	}
	return out
}
