package sso

import (
	"fmt"
	"strings"
	"time"

	"github.com/zitadel/saml/pkg/provider"

	"verif/harness/internal/coqgen"
	"verif/harness/internal/idp"
)

// Obs is the projected observation compared with the model.
type Obs struct {
	Kind                                                    int
	Status, Target, Relay, IRT, SigAlg, Login, Issuer, Dest string
	Creates                                                 [][5]string // acs, binding, relay, app, request id
}

func Project(rep *idp.Reply, st *idp.Storage) Obs {
	o := Obs{}
	switch rep.Kind {
	case "login-redirect":
		o.Kind = 1
		o.Login = strings.TrimPrefix(rep.Location, idp.LoginBase)
	case "saml-body":
		o.Kind = 2
	case "saml-post":
		o.Kind = 3
		o.Target = rep.FormAction
		o.Relay = rep.FormRelay
	case "saml-redirect":
		o.Kind = 4
		if i := strings.LastIndex(rep.Location, "SAMLResponse="); i > 0 {
			o.Target = rep.Location[:i-1]
		}
		o.Relay = rep.Q["RelayState"]
		o.SigAlg = rep.Q["SigAlg"]
	case "http-error":
		o.Kind = 5
	case "panic":
		o.Kind = 6
	default:
		o.Kind = 7
	}
	if rep.Doc != nil {
		o.Status = rep.Status
		o.IRT = rep.Doc.AttrOr("InResponseTo", "")
		o.Dest = rep.Doc.AttrOr("Destination", "")
		o.Issuer = rep.Doc.Child("Issuer").TextOf()
	}
	for _, c := range st.Log() {
		if c.Op == "CreateAuthRequest" && !contains(st.Fired, c.Op) {
			o.Creates = append(o.Creates, [5]string{c.Args[0], c.Args[1], c.Args[2], c.Args[3], c.Args[4]})
		}
	}
	return o
}

func contains(fs []idp.Fault, op string) bool {
	for _, f := range fs {
		if f.Op == op {
			return true
		}
	}
	return false
}

func coqObs(o Obs) string {
	var cs []string
	for _, c := range o.Creates {
		cs = append(cs, fmt.Sprintf("{| c_acs := %s; c_binding := %s; c_relay := %s; c_app := %s; c_reqid := %s |}",
			coqgen.Bytes(c[0]), coqgen.Bytes(c[1]), coqgen.Bytes(c[2]), coqgen.Bytes(c[3]), coqgen.Bytes(c[4])))
	}
	return fmt.Sprintf("{| o_kind := %s; o_status := %s; o_target := %s; o_relay := %s; o_irt := %s; o_sigalg := %s; o_login := %s; o_issuer := %s; o_dest := %s; o_creates := %s |}",
		coqgen.Z(int64(o.Kind)), coqgen.Bytes(o.Status), coqgen.Bytes(o.Target), coqgen.Bytes(o.Relay), coqgen.Bytes(o.IRT), coqgen.Bytes(o.SigAlg),
		coqgen.Bytes(o.Login), coqgen.Bytes(o.Issuer), coqgen.Bytes(o.Dest), coqgen.List(cs))
}

// Result of executing one scenario.
type Exec struct {
	S     *Scenario
	Built *Built
	Abs   *Abstract
	Rep   *idp.Reply
	Obs   Obs
	Now   time.Time
	Coq   string
	bench *Bench
}

type Bench struct {
	envs map[string]*idp.Env
}

func NewBench() *Bench { return &Bench{envs: map[string]*idp.Env{}} }

func (b *Bench) env(want string) *idp.Env {
	if e, ok := b.envs[want]; ok {
		return e
	}
	conf := idp.DefaultConf()
	conf.IDPConfig.WantAuthRequestsSigned = want
	e, err := idp.NewEnv(idp.EnvConfig{Issuer: IssuerURL, Conf: conf})
	if err != nil {
		panic(err)
	}
	b.envs[want] = e
	return e
}

// Execute runs the scenario against the real handler and renders the Coq case.
func (b *Bench) Execute(id int, s *Scenario) (*Exec, error) {
	env := b.env(s.Want)
	st := env.Storage
	st.ClearSPs()
	st.Faults = nil
	if s.Registered {
		if _, err := st.Register("app-1", s.SP); err != nil {
			return nil, fmt.Errorf("register: %w", err)
		}
	}
	built, err := s.Build()
	if err != nil {
		return nil, err
	}
	abs := ComputeAbstract(built.Spec.HTTP(), st, &s.SP, s.Fault, st.PeekNextID())
	st.ResetLog()
	if s.Fault != nil {
		st.Faults = []idp.Fault{*s.Fault}
	}
	now := time.Now()
	abs.Now = now.UnixMicro()
	rep := env.Do(built.Spec.HTTP())
	obs := Project(rep, st)
	create := "None"
	if !abs.CreateErr {
		create = "(Some " + coqgen.Bytes(abs.CreateID) + ")"
	}
	coq := fmt.Sprintf("{| k_id := %s; k_form := %s; k_dec := %s; k_sp := %s; k_vr := %s; k_vp := %s; k_times := %s; k_now := %s; k_create := %s; k_want := %s; k_locs := %s; k_eid := %s; k_cert_ok := %s; k_obs := %s; k_spdoc := %s; k_doc := %s |}",
		coqgen.Z(int64(id)), coqForm(abs), coqDec(abs.Dec), CoqSP(abs.SP), coqgen.Bool(abs.VR), coqgen.Bool(abs.VP), coqTimes(abs), coqgen.Z(abs.Now), create,
		coqgen.Bytes(s.Want), coqgen.BytesList([]string{SSOLoc, SSOLoc}), coqgen.Bytes(IssuerURL+provider.DefaultMetadataEndpoint), coqgen.Bool(abs.CertOK), coqObs(obs), st.SPDocTerm(abs.SP), docTree(abs))
	return &Exec{S: s, Built: built, Abs: abs, Rep: rep, Obs: obs, Now: now, Coq: coq, bench: b}, nil
}

func (e *Exec) Desc() map[string]interface{} {
	return map[string]interface{}{"scenario": e.S, "request": e.Built.Spec, "document": string(e.Built.Doc), "observed": e.Obs, "reply_kind": e.Rep.Kind, "http_code": e.Rep.Code, "panic": e.Rep.Panic}
}
func (e *Exec) Accepted() bool { return len(e.Obs.Creates) > 0 }

func docTree(a *Abstract) string {
	if a.DocTree == "" {
		return "None"
	}
	return a.DocTree
}
