// Package sso drives the SSO endpoint: scenario -> HTTP request -> real handler -> projected observation,
// plus the abstract inputs (form values, decoded request, oracle verdicts) the Coq model consumes.
package sso

import (
	"encoding/base64"
	"fmt"
	"net/http"
	"net/url"
	"strings"
	"time"

	"github.com/zitadel/saml/pkg/provider"
	"github.com/zitadel/saml/pkg/provider/serviceprovider"
	samlxml "github.com/zitadel/saml/pkg/provider/xml"
	"github.com/zitadel/saml/pkg/provider/xml/samlp"

	"verif/harness/internal/coqgen"
	"verif/harness/internal/idp"
)

const (
	IssuerURL = "https://idp.example/saml"
	SPEntity  = "https://sp.example/metadata"
	SSOLoc    = "https://idp.example/saml/SSO"
	TimeFmt   = "2006-01-02T15:04:05.999999Z"
)

type Scenario struct {
	Stream     string       `json:"stream"`
	Mut        string       `json:"mut,omitempty"`
	SP         idp.SPMeta   `json:"sp"`
	Registered bool         `json:"registered"`
	Req        idp.AuthnReq `json:"req"`
	Style      idp.Style    `json:"style"`
	Transport  string       `json:"transport"` // redirect | post
	Encoding   *string      `json:"encoding,omitempty"`
	NoDeflate  bool         `json:"no_deflate,omitempty"` // redirect transport without compression
	Relay      string       `json:"relay,omitempty"`
	Sign       string       `json:"sign,omitempty"` // "", rsa-sha1 URI, rsa-sha256 URI
	SignKey    string       `json:"sign_key,omitempty"`
	KeyInfo    bool         `json:"keyinfo,omitempty"`
	SigLast    bool         `json:"sig_last,omitempty"`
	Want       string       `json:"want_signed"`
	Fault      *idp.Fault   `json:"fault,omitempty"`
	EncStyle   string       `json:"enc_style,omitempty"` // percent-encoding style of the SP: "" (upper-case hex, + for space), lower, pct20, lower+pct20, all
	RawMsg     *string      `json:"raw_msg,omitempty"`   // send these bytes as SAMLRequest value instead of an encoded document
	ExtraQuery []idp.Param  `json:"extra_query,omitempty"`
	ExtraBody  []idp.Param  `json:"extra_body,omitempty"`
	// what the simulated SP really signed (for the C05 oracle)
	SignedTriples [][4]string `json:"-"` // message, RelayState, SigAlg, signature
	SignedDocOK   bool        `json:"-"` // the document sent is exactly what the SP signed (enveloped)
}

func okACS() []idp.ACS {
	return []idp.ACS{{Index: "0", Binding: idp.PostBinding, Location: "https://sp.example/acs/post"}, {Index: "1", Binding: idp.RedirBinding, Location: "https://sp.example/acs/redirect"}}
}

func BaseSP(authnSigned *string, withCert bool) idp.SPMeta {
	_, _, sp, _ := idp.Keys()
	m := idp.SPMeta{EntityID: SPEntity, AuthnRequestsSigned: authnSigned, ACS: okACS(), SLO: []idp.SLO{{Binding: idp.PostBinding, Location: "https://sp.example/slo"}}}
	if withCert {
		m.Certs = []idp.CertEntry{{Use: "signing", Text: sp.CertB64()}}
	}
	return m
}

func BaseReq(id string) idp.AuthnReq {
	now := time.Now().UTC().Format(TimeFmt)
	return idp.AuthnReq{ID: idp.S(id), Version: idp.S("2.0"), IssueInstant: idp.S(now), Destination: idp.S(SSOLoc),
		ProtocolBinding: idp.S(idp.PostBinding), Issuer: idp.S(SPEntity)}
}

// Built is the concrete request plus what the harness knows about it.
type Built struct {
	Spec idp.ReqSpec
	Doc  []byte // document bytes before transport encoding (after signing / mutation)
}

func keyFor(name string) *idp.KeyPair {
	_, _, sp, other := idp.Keys()
	if name == "other" {
		return other
	}
	return sp
}

// Build turns the scenario into an HTTP request.
func (s *Scenario) Build() (*Built, error) {
	q := func(k, v string) idp.Param { return idp.Param{K: k, V: EscapeStyle(s.EncStyle, v)} }
	doc := s.Req.XML(s.Style)
	signedDoc := false
	if s.Sign != "" && s.Transport == "post" || strings.HasPrefix(s.Mut, "move-to-redirect") {
		alg := s.Sign
		if alg == "" {
			alg = idp.RSASHA256
		}
		d, err := idp.SignEnveloped(doc, keyFor(s.SignKey), alg, s.KeyInfo, !s.SigLast)
		if err != nil {
			return nil, err
		}
		doc = d
		signedDoc = s.SignKey != "other"
	}
	// mutations of the document after signing
	switch s.Mut {
	case "bitflip-msg", "move-to-redirect-tampered":
		doc = []byte(strings.Replace(string(doc), `ID="`, `ID="x`, 1))
		signedDoc = false
	case "bitflip-sigvalue":
		if i := strings.Index(string(doc), "SignatureValue>"); i >= 0 {
			b := []byte(doc)
			j := i + len("SignatureValue>") + 5
			if b[j] == 'A' {
				b[j] = 'B'
			} else {
				b[j] = 'A'
			}
			doc = b
			signedDoc = false
		}
	case "foreign-keyinfo":
		_, _, _, other := idp.Keys()
		_, _, sp, _ := idp.Keys()
		doc = []byte(strings.Replace(string(doc), sp.CertB64(), other.CertB64(), 1))
	case "wrap-cert":
		_, _, sp, _ := idp.Keys()
		c := sp.CertB64()
		var w strings.Builder
		for i := 0; i < len(c); i += 64 {
			j := i + 64
			if j > len(c) {
				j = len(c)
			}
			w.WriteString(c[i:j] + "\n")
		}
		doc = []byte(strings.Replace(string(doc), c, w.String(), 1))
	}
	s.SignedDocOK = signedDoc
	var msg string
	deflate := s.Transport == "redirect" && !s.NoDeflate || strings.HasPrefix(s.Mut, "move-to-redirect")
	if s.Mut == "post-deflated" {
		deflate = true
	}
	if deflate {
		msg = idp.DeflateB64(doc)
	} else {
		msg = idp.B64(doc)
	}
	if s.RawMsg != nil {
		msg = *s.RawMsg
	}
	var query, body []idp.Param
	params := []idp.Param{q("SAMLRequest", msg)}
	if s.Relay != "" {
		params = append(params, q("RelayState", s.Relay))
	}
	if s.Encoding != nil {
		params = append(params, q("SAMLEncoding", *s.Encoding))
	}
	detached := s.Sign != "" && (s.Transport == "redirect" && !strings.HasPrefix(s.Mut, "move-to-redirect") || s.Mut == "move-to-post") || strings.HasPrefix(s.Mut, "post-detached-sig")
	if strings.HasPrefix(s.Mut, "post-detached-sig") && s.Sign == "" {
		s.Sign = idp.RSASHA256
	}
	if detached {
		signRelay := s.Relay
		if s.Mut == "swap-relay" {
			signRelay = s.Relay + "-signed"
		}
		octets := idp.RedirectOctets("SAMLRequest", msg, signRelay, s.Sign, func(v string) string { return EscapeStyle(s.EncStyle, v) })
		sig := idp.SignRedirect(keyFor(s.SignKey).Key, s.Sign, octets)
		if s.SignKey != "other" {
			s.SignedTriples = append(s.SignedTriples, [4]string{msg, signRelay, s.Sign, sig})
		}
		sendAlg := s.Sign
		switch s.Mut {
		case "alg-subst":
			if s.Sign == idp.RSASHA1 {
				sendAlg = idp.RSASHA256
			} else {
				sendAlg = idp.RSASHA1
			}
		case "bitflip-sig", "post-detached-sig-bad":
			raw, _ := base64.StdEncoding.DecodeString(sig)
			raw[len(raw)/2] ^= 0x10
			sig = base64.StdEncoding.EncodeToString(raw)
		case "bitflip-signed-msg":
			// change the message after signing: re-encode a different document
			alt := strings.Replace(string(doc), `ID="`, `ID="y`, 1)
			params[0] = q("SAMLRequest", idp.DeflateB64([]byte(alt)))
		case "malformed-sig-params-both":
			// both signature parameters arrive in broken form encoding: a lenient parser drops both and sees an unsigned request
			raw, _ := base64.StdEncoding.DecodeString(sig)
			raw[0] ^= 0x01
			s.ExtraQuery = append(s.ExtraQuery, idp.Param{K: "SigAlg", V: url.QueryEscape(sendAlg) + "%zz"}, idp.Param{K: "Signature", V: url.QueryEscape(base64.StdEncoding.EncodeToString(raw)) + "%zz"})
			sig = ""
		case "malformed-sig-param", "malformed-sig-param-semicolon":
			// the Signature parameter is a forged value in broken form encoding; a lenient form parser drops the pair
			raw, _ := base64.StdEncoding.DecodeString(sig)
			raw[0] ^= 0x01
			bad := url.QueryEscape(base64.StdEncoding.EncodeToString(raw)) + "%zz"
			if s.Mut == "malformed-sig-param-semicolon" {
				bad = url.QueryEscape(base64.StdEncoding.EncodeToString(raw)) + ";AAAA"
			}
			s.ExtraQuery = append(s.ExtraQuery, idp.Param{K: "Signature", V: bad})
			sig = ""
		case "strip-sig":
			sig = ""
		case "sigalg-only":
			sig = ""
		}
		if s.Mut != "strip-sig" && s.Mut != "sig-only" && s.Mut != "malformed-sig-params-both" {
			params = append(params, q("SigAlg", sendAlg))
		}
		if sig != "" {
			params = append(params, q("Signature", sig))
		}
	}
	method := http.MethodGet
	switch {
	case s.Transport == "post" && !strings.HasPrefix(s.Mut, "move-to-redirect") || s.Mut == "move-to-post":
		method = http.MethodPost
		body = params
	default:
		query = params
	}
	if s.Mut == "split-forged-body" {
		// the query carries a validly signed redirect message, the form body a different message / RelayState
		method = http.MethodPost
		query = params
		forged := strings.Replace(string(doc), `ID="`, `ID="forged`, 1)
		body = []idp.Param{q("SAMLRequest", idp.DeflateB64([]byte(forged))), q("RelayState", "forged-state")}
	}
	if s.Mut == "param-split" {
		// message in the body, a decoy SAMLRequest in the query (or the reverse for GET)
		method = http.MethodPost
		body = params
		query = []idp.Param{q("SAMLRequest", "ZGVjb3k=")}
	}
	query = append(query, s.ExtraQuery...)
	body = append(body, s.ExtraBody...)
	if len(s.ExtraBody) > 0 {
		method = http.MethodPost
	}
	return &Built{Spec: idp.ReqSpec{Method: method, Path: "/SSO", Query: query, Body: body}, Doc: doc}, nil
}

// ---- abstract inputs for the model ----

type Abstract struct {
	FormErr   bool
	Form      [6]string // binding, req, enc, relay, sigalg, sig
	Dec       *samlp.AuthnRequestType
	SP        *serviceprovider.ServiceProvider
	SPMeta    *idp.SPMeta
	VR, VP    bool
	Times     map[string]*int64 // parsed instants (unix nanos); nil = unparsable
	Now       int64
	CreateErr bool
	CreateID  string
	CertOK    bool
	DocTree   string // the inflated payload as the resolved element tree (Coq term), "None" when it is not available
}

func formValues(cp *http.Request) (errp bool, vals [6]string) {
	// net/http is the oracle for form parsing; binding selection and the DEFLATE default are the documented rule
	if err := cp.ParseForm(); err != nil {
		return true, vals
	}
	binding := idp.PostBinding
	if _, ok := cp.URL.Query()["SAMLRequest"]; ok {
		binding = idp.RedirBinding
	}
	enc := cp.FormValue("SAMLEncoding")
	if enc == "" && binding == idp.RedirBinding {
		enc = idp.Deflate
	}
	return false, [6]string{binding, cp.FormValue("SAMLRequest"), enc, cp.FormValue("RelayState"), cp.FormValue("SigAlg"), cp.FormValue("Signature")}
}

func safeBool(f func() error) (ok bool) {
	defer func() {
		if recover() != nil {
			ok = false
		}
	}()
	return f() == nil
}

func (a *Abstract) instants(ss ...string) {
	for _, s := range ss {
		if s == "" {
			continue
		}
		t, err := time.Parse(provider.DefaultTimeFormat, s)
		if err != nil {
			a.Times[s] = nil
		} else {
			n := t.UnixMicro()
			a.Times[s] = &n
		}
	}
}

// ComputeAbstract derives, with exported library / stdlib functions only, the values the model needs.
func ComputeAbstract(r *http.Request, st *idp.Storage, meta *idp.SPMeta, fault *idp.Fault, nextID string) *Abstract {
	a := &Abstract{Times: map[string]*int64{}, CertOK: true, CreateID: nextID}
	a.FormErr, a.Form = formValues(r)
	if fault != nil && fault.Op == "CreateAuthRequest" {
		a.CreateErr = true
	}
	if fault != nil && fault.Op == "GetResponseSigningKey" && fault.Nth == 1 {
		a.CertOK = false
	}
	if a.FormErr {
		return a
	}
	dec, err := samlxml.DecodeAuthNRequest(a.Form[2], a.Form[1])
	// the payload the decoder parses, as Go's tokenizer resolves it (an oracle of the model of Unmarshal)
	a.DocTree = "None"
	if data, derr := samlxml.InflateAndDecode(a.Form[2], true, a.Form[1]); derr == nil {
		a.DocTree = idp.DocTreeTerm(data)
	}
	if err == nil {
		a.Dec = dec
		if dec.Conditions != nil {
			a.instants(dec.Conditions.NotBefore, dec.Conditions.NotOnOrAfter)
		}
		if dec.Issuer != nil && !(fault != nil && fault.Op == "GetEntityByID") {
			if sp, ok := st.SPs[dec.Issuer.Text]; ok {
				a.SP = sp
				a.SPMeta = meta
			}
		}
	}
	if a.SP != nil {
		a.VR = safeBool(func() error { return a.SP.ValidateRedirectSignature(a.Form[1], a.Form[3], a.Form[4], a.Form[5]) })
		a.VP = safeBool(func() error {
			data, err := base64.StdEncoding.DecodeString(a.Form[1])
			if err != nil {
				return err
			}
			return a.SP.ValidatePostSignature(string(data))
		})
	}
	return a
}

// ---- Coq rendering ----

func coqForm(a *Abstract) string {
	if a.FormErr {
		return "None"
	}
	f := a.Form
	return fmt.Sprintf("(Some {| f_binding := %s; f_req := %s; f_enc := %s; f_relay := %s; f_sigalg := %s; f_sig := %s |})",
		coqgen.Bytes(f[0]), coqgen.Opaque(f[1]), coqgen.Bytes(f[2]), coqgen.Bytes(f[3]), coqgen.Bytes(f[4]), coqgen.Opaque(f[5]))
}

func coqDec(d *samlp.AuthnRequestType) string {
	if d == nil {
		return "None"
	}
	iss := "None"
	if d.Issuer != nil {
		iss = "(Some " + coqgen.Bytes(d.Issuer.Text) + ")"
	}
	cond := "None"
	if d.Conditions != nil {
		cond = fmt.Sprintf("(Some (%s, %s))", coqgen.Bytes(d.Conditions.NotBefore), coqgen.Bytes(d.Conditions.NotOnOrAfter))
	}
	sig := "None"
	if d.Signature != nil {
		ki := "None"
		if d.Signature.KeyInfo != nil {
			var cs []string
			for _, x := range d.Signature.KeyInfo.X509Data {
				cs = append(cs, idp.CertText(x.X509Certificate))
			}
			ki = "(Some " + coqgen.BytesList(cs) + ")"
		}
		sig = fmt.Sprintf("(Some {| sg_keyinfo := %s; sg_value := %s |})", ki, coqgen.Bytes(d.Signature.SignatureValue.Text))
	}
	return fmt.Sprintf("(Some {| a_id := %s; a_version := %s; a_destination := %s; a_binding := %s; a_issuer := %s; a_conditions := %s; a_signature := %s |})",
		coqgen.Bytes(d.Id), coqgen.Bytes(d.Version), coqgen.Bytes(d.Destination), coqgen.Bytes(d.ProtocolBinding), iss, cond, sig)
}

func CoqSP(sp *serviceprovider.ServiceProvider) string {
	if sp == nil {
		return "None"
	}
	d := sp.Metadata.SPSSODescriptor
	var kds []string
	for _, kd := range d.KeyDescriptor {
		var cs []string
		for _, x := range kd.KeyInfo.X509Data {
			cs = append(cs, idp.CertText(x.X509Certificate))
		}
		kds = append(kds, coqgen.BytesList(cs))
	}
	var acs []string
	for _, e := range d.AssertionConsumerService {
		acs = append(acs, fmt.Sprintf("{| IndexedEndpointType_Index := %s; IndexedEndpointType_IsDefault := %s; IndexedEndpointType_Binding := %s; IndexedEndpointType_Location := %s; IndexedEndpointType_ResponseLocation := %s |}",
			coqgen.Bytes(e.Index), coqgen.Bytes(e.IsDefault), coqgen.Bytes(e.Binding), coqgen.Bytes(e.Location), coqgen.Bytes(e.ResponseLocation)))
	}
	var slo []string
	for _, e := range d.SingleLogoutService {
		slo = append(slo, e.Location)
	}
	return fmt.Sprintf("(Some {| sp_id := %s; sp_entity := %s; sp_authn_signed := %s; sp_keydescs := %s; sp_acs := %s; sp_slo := %s |})",
		coqgen.Bytes(sp.ID), coqgen.Bytes(sp.GetEntityID()), coqgen.Bytes(d.AuthnRequestsSigned), coqgen.List(kds), coqgen.List(acs), coqgen.BytesList(slo))
}

func coqTimes(a *Abstract) string {
	var es []string
	for s, t := range a.Times {
		if t == nil {
			es = append(es, fmt.Sprintf("(%s, IBad)", coqgen.Bytes(s)))
		} else {
			es = append(es, fmt.Sprintf("(%s, IAt %s)", coqgen.Bytes(s), coqgen.Z(*t)))
		}
	}
	return coqgen.List(es)
}

// EscapeStyle percent-encodes a parameter value in one of the styles RFC 3986 / the HTML form encoding allow
func EscapeStyle(style, v string) string {
	e := url.QueryEscape(v)
	if strings.Contains(style, "all") {
		var sb strings.Builder
		for i := 0; i < len(v); i++ {
			fmt.Fprintf(&sb, "%%%02X", v[i])
		}
		e = sb.String()
	}
	if strings.Contains(style, "pct20") {
		e = strings.ReplaceAll(e, "+", "%20")
	}
	if strings.Contains(style, "lower") {
		var sb strings.Builder
		for i := 0; i < len(e); i++ {
			if e[i] == '%' && i+2 < len(e) {
				sb.WriteString("%" + strings.ToLower(e[i+1:i+3]))
				i += 2
			} else {
				sb.WriteByte(e[i])
			}
		}
		e = sb.String()
	}
	return e
}
