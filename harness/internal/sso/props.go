package sso

import (
	"encoding/base64"
	"fmt"
	"math/rand"
	"strings"
	"time"

	"github.com/zitadel/saml/pkg/provider"

	"verif/harness/internal/coqgen"
	"verif/harness/internal/idp"
)

const statusSuccess = "urn:oasis:names:tc:SAML:2.0:status:Success"

type oracleFn = func(e *Exec) (class, what string)

func runAll(prop, dir, tier string, seed int64, scenarios []*Scenario, rule string, oracles ...oracleFn) error {
	return RunWith(prop, dir, tier, seed, scenarios, rule, nil, oracles...)
}

// NewScenario is the default SSO scenario (registered SP with certificate, Redirect transport, unsigned).
func NewScenario(stream string, id int) *Scenario { return newScenario(stream, id) }

// RunWith runs SSO scenarios through the handler and the Coq model; extra (if any) adds further evaluations to the same run.
func RunWith(prop, dir, tier string, seed int64, scenarios []*Scenario, rule string, extra func(run *coqgen.Run), oracles ...func(e *Exec) (class, what string)) error {
	run := coqgen.NewRun(dir, prop, tier, seed)
	run.Imports = "From Saml Require Import Base.Bytes Gen.Pure Idp.Sso Xml.Unmarshal Corr.SsoCorr."
	run.CaseType = "sso_case"
	run.BadFn = "sso_bad"
	run.PerShard = 150
	b := NewBench()
	for id, s := range scenarios {
		e, err := b.Execute(id, s)
		if err != nil {
			run.Note("scenario %d (%s/%s) could not be built: %v", id, s.Stream, s.Mut, err)
			continue
		}
		run.Res.Evaluations++
		run.AddCase(id, e.Coq, e.Desc())
		key := fmt.Sprintf("%s/%s/%s", s.Stream, strings.SplitN(s.Mut, "-other-", 2)[0], s.Transport)
		if s.Stream == "signed" {
			fl := "absent"
			if s.SP.AuthnRequestsSigned != nil {
				fl = *s.SP.AuthnRequestsSigned
			}
			key += fmt.Sprintf("/sp=%s/idp=%s/sign=%v/key=%s/certs=%d", fl, s.Want, s.Sign != "", s.SignKey, len(s.SP.Certs))
		}
		run.Count("stream=" + s.Stream)
		run.Count(fmt.Sprintf("reply=%s", e.Rep.Kind))
		if e.Obs.Status != "" {
			run.Count("status=" + e.Obs.Status[strings.LastIndex(e.Obs.Status, ":")+1:])
		}
		run.Distinct(fmt.Sprintf("%s->%d/%s/%d", key, e.Obs.Kind, e.Obs.Status, len(e.Obs.Creates)))
		if id%37 == 5 {
			run.Sample(map[string]interface{}{"stream": s.Stream, "mut": s.Mut, "request": e.Built.Spec, "observed": e.Obs})
		}
		for _, o := range oracles {
			if class, what := o(e); class != "" {
				run.Fail(coqgen.Failure{ID: id, Class: class, What: what, Input: e.Desc()})
			}
		}
	}
	if extra != nil {
		extra(run)
	}
	run.Res.Rule = rule
	return run.Finish()
}

// ---- C08: one request, one outcome ----
func OracleC08(e *Exec) (string, string) {
	attempts := 0
	for _, c := range e.Storage().Log() {
		if c.Op == "CreateAuthRequest" {
			attempts++
		}
	}
	n := len(e.Obs.Creates)
	o := e.Obs
	switch {
	case o.Kind == 6:
		return "panic", "handler panicked: " + e.Rep.Panic
	case attempts > 1:
		return "persisted-more-than-once", fmt.Sprintf("%d CreateAuthRequest calls", attempts)
	case n == 1:
		if o.Kind != 1 {
			return "persisted-but-not-redirected-to-login", fmt.Sprintf("request persisted, reply kind %s code %d", e.Rep.Kind, e.Rep.Code)
		}
		if o.Login != e.Abs.CreateID {
			return "login-redirect-for-other-id", fmt.Sprintf("redirected to login for %q, storage returned %q", o.Login, e.Abs.CreateID)
		}
		return "", ""
	case o.Kind == 1:
		return "login-redirect-without-persistence", "303 to login although nothing was persisted"
	case o.Kind == 5:
		if b := string(e.Rep.Body); strings.Contains(b, "<Response") || strings.Contains(b, "<form") || strings.Contains(b, "SAMLResponse") {
			return "reply-concatenates-messages", fmt.Sprintf("an HTTP %d error reply also carries a SAML message (%d bytes)", e.Rep.Code, len(b))
		}
		return "", ""
	case o.Kind == 2 || o.Kind == 3 || o.Kind == 4:
		if e.Rep.Doc == nil {
			return "reply-not-one-document", "reply message is not a single well-formed XML document: " + e.Rep.DocErr
		}
		if o.Kind == 3 && e.Rep.FormCount != 1 {
			return "reply-not-one-form", fmt.Sprintf("%d forms in the reply", e.Rep.FormCount)
		}
		if o.Status == "" || o.Status == statusSuccess {
			return "rejected-with-success-status", "nothing persisted but status is " + o.Status
		}
		return "", ""
	default:
		return "empty-reply", fmt.Sprintf("reply kind %s code %d body %d bytes", e.Rep.Kind, e.Rep.Code, len(e.Rep.Body))
	}
}

func (e *Exec) Storage() *idp.Storage { return e.bench.env(e.S.Want).Storage }

// ---- C06: accepted => every validity condition ----
func xsTrue(s string) bool { return s == "true" || s == "1" }

func OracleC06(e *Exec) (string, string) {
	if !e.Accepted() || e.Abs.FormErr {
		return "", ""
	}
	f := e.Abs.Form
	msg, enc, sigalg, sig := f[1], f[2], f[4], f[5]
	if msg == "" {
		return "accepted:empty-request", "empty SAMLRequest accepted"
	}
	if sigalg != "" && sig == "" {
		return "accepted:sigalg-without-signature", "SigAlg without Signature accepted"
	}
	if enc != "" && enc != idp.Deflate {
		return "accepted:unknown-encoding", "unknown SAMLEncoding " + enc
	}
	raw, err := base64.StdEncoding.DecodeString(msg)
	if err != nil {
		return "accepted:not-base64", err.Error()
	}
	if enc == idp.Deflate {
		if raw, err = idp.Inflate(raw); err != nil {
			return "accepted:not-deflate", err.Error()
		}
	}
	doc, err := idp.ParseXML(raw)
	if err != nil {
		if strings.Contains(string(raw), "</") && (strings.Contains(err.Error(), "root") || strings.Contains(err.Error(), "outside")) || strings.HasSuffix(strings.TrimSpace(string(raw)), "garbage") {
			return "accepted:content-after-root", "document is not well-formed (content after the root element): " + err.Error()
		}
		return "accepted:not-well-formed", err.Error()
	}
	if doc.Local != "AuthnRequest" || doc.Space != idp.NSProtocol {
		return "accepted:not-an-authnrequest", "root element " + doc.Space + " " + doc.Local
	}
	var issuer *idp.Node
	for _, c := range doc.Children {
		if c.Local == "Issuer" && c.Space == idp.NSAssertion {
			issuer = c
		}
	}
	if issuer == nil || issuer.Text == "" {
		return "accepted:issuer-missing", "no Issuer"
	}
	if !e.S.Registered || issuer.Text != e.S.SP.EntityID {
		return "accepted:issuer-not-registered-entity", "Issuer " + issuer.Text
	}
	if v, _ := doc.Attr("ID"); v == "" {
		return "accepted:id-missing", "ID empty"
	}
	if v, _ := doc.Attr("Version"); v == "" {
		return "accepted:version-missing", "Version empty"
	}
	if d, _ := doc.Attr("Destination"); d != "" && d != SSOLoc {
		return "accepted:destination-not-advertised", "Destination " + d
	}
	for _, c := range doc.Children {
		if c.Local == "Conditions" && c.Space == idp.NSAssertion {
			nb, _ := c.Attr("NotBefore")
			noa, _ := c.Attr("NotOnOrAfter")
			if nb != "" {
				t, err := time.Parse(provider.DefaultTimeFormat, nb)
				if err != nil {
					return "accepted:notbefore-unparsable", nb
				}
				if t.After(e.Now.Add(2 * time.Second)) {
					return "accepted:before-notbefore", nb
				}
			}
			if noa != "" {
				t, err := time.Parse(provider.DefaultTimeFormat, noa)
				if err != nil {
					return "accepted:notonorafter-unparsable", noa
				}
				if t.Before(e.Now.Add(-2 * time.Second)) {
					return "accepted:after-notonorafter", noa
				}
			}
		}
	}
	return "", ""
}

// ---- C05: signatures ----
func OracleC05(e *Exec) (string, string) {
	if e.Accepted() && e.Abs.FormErr {
		return "accepted-with-unparsable-parameters", "the request parameters are not well-formed form encoding (net/http reports an error), yet the request was accepted: a parameter -- e.g. a non-verifying Signature -- was silently dropped"
	}
	if !e.Accepted() || e.Abs.FormErr {
		return "", ""
	}
	f := e.Abs.Form
	binding, msg, relay, sigalg, sig := f[0], f[1], f[3], f[4], f[5]
	required := e.S.SP.AuthnRequestsSigned != nil && xsTrue(*e.S.SP.AuthnRequestsSigned) || xsTrue(e.S.Want)
	c := e.Obs.Creates[0]
	signedTriple := false
	for _, t := range e.S.SignedTriples {
		if t[0] == msg && t[1] == relay && t[2] == sigalg && (t[3] == sig || sig == "") {
			signedTriple = true
		}
	}
	// a signature can only "verify under the signing certificate registered" if one is registered for signing
	canVerify := false
	for _, ce := range e.S.SP.Certs {
		if ce.Use == "" || ce.Use == "signing" {
			canVerify = true
		}
	}
	signedTriple = signedTriple && canVerify
	signedDocOK := e.S.SignedDocOK && canVerify
	// embedded signature value of the document acted on
	embedded := e.Abs.Dec != nil && e.Abs.Dec.Signature != nil && e.Abs.Dec.Signature.SignatureValue.Text != ""
	if binding == idp.RedirBinding {
		if required && !(signedTriple && sig != "") {
			return "accepted-unsigned:redirect-required", fmt.Sprintf("signing required, accepted (SigAlg %q, Signature %d bytes) but the SP never signed this (message, RelayState, SigAlg)", sigalg, len(sig))
		}
		if sig != "" && !signedTriple {
			return "accepted-bad-signature:redirect", "non-empty Signature that the SP did not produce for these values"
		}
		if c[2] != relay {
			return "persisted-other-relaystate", fmt.Sprintf("verified %q persisted %q", relay, c[2])
		}
		if embedded && !signedDocOK {
			return "accepted-bad-signature:embedded-over-redirect", "document carries an enveloped signature that does not verify; accepted over the Redirect binding"
		}
		return "", ""
	}
	if required && !(embedded && signedDocOK) {
		return "accepted-unsigned:post-required", "signing required, accepted a POST-binding request without a verifying enveloped signature"
	}
	if embedded && !signedDocOK {
		return "accepted-bad-signature:post", "enveloped signature does not verify"
	}
	if sig != "" && !signedTriple {
		return "accepted-bad-signature:detached-in-post-form", "non-verifying Signature form parameter in a POST-binding request was ignored and the request accepted"
	}
	return "", ""
}

// ---- C02: targets ----
func OracleC02(e *Exec) (string, string) {
	// the provider consulted for the reply target is the one registered under exactly the Issuer the request names
	if e.Abs.Dec != nil && e.Abs.Dec.Issuer != nil {
		for _, c := range e.Storage().Log() {
			if c.Op == "GetEntityByID" && len(c.Args) > 0 && c.Args[0] != e.Abs.Dec.Issuer.Text {
				return "provider-looked-up-under-another-key", fmt.Sprintf("request Issuer %q, storage asked for %q", e.Abs.Dec.Issuer.Text, c.Args[0])
			}
		}
	}
	reg := map[[2]string]bool{}
	locs := map[string]bool{}
	if e.S.Registered {
		for _, a := range e.S.SP.ACS {
			reg[[2]string{a.Location, a.Binding}] = true
			locs[a.Location] = true
		}
	}
	for _, c := range e.Obs.Creates {
		if !reg[[2]string{c[0], c[1]}] {
			return "persisted-unregistered-target", fmt.Sprintf("persisted (%q,%q) which is not a registered ACS entry", c[0], c[1])
		}
	}
	o := e.Obs
	switch o.Kind {
	case 3, 4:
		if !locs[o.Target] {
			return "reply-to-unregistered-url", fmt.Sprintf("reply delivered to %q", o.Target)
		}
		if o.Dest != "" && o.Dest != o.Target {
			return "destination-differs-from-target", fmt.Sprintf("Destination %q, delivered to %q", o.Dest, o.Target)
		}
		bn := idp.PostBinding
		if o.Kind == 4 {
			bn = idp.RedirBinding
		}
		if !reg[[2]string{o.Target, bn}] {
			return "reply-url-binding-from-different-entries", fmt.Sprintf("%q is not registered with binding %s", o.Target, bn)
		}
		if o.Kind == 4 {
			// URL-level: SAMLResponse must be a parameter of the URL sent, and the ACS's own parameters must survive
			if _, ok := e.Rep.Q["SAMLResponse"]; !ok {
				return "redirect-without-samlresponse-parameter", e.Rep.Location
			}
		}
	case 2:
		if o.Dest != "" && !locs[o.Dest] {
			return "destination-unregistered", o.Dest
		}
	}
	return "", ""
}

func scenariosFor(prop, tier string, r *rand.Rand) []*Scenario {
	m := 1
	if tier == "thorough" {
		m = 8
	}
	var out []*Scenario
	switch prop {
	case "C08":
		out = append(out, StreamBindings(r, 300*m)...)
		out = append(out, StreamValid(r, 60*m)...)
		out = append(out, StreamConjuncts(r)...)
		out = append(out, StreamSigned(r, 60*m)...)
	case "C06":
		out = append(out, StreamConjuncts(r)...)
		out = append(out, StreamValid(r, 120*m)...)
		out = append(out, StreamBindings(r, 40*m)...)
	case "C05":
		out = append(out, StreamSigned(r, 450*m)...)
		out = append(out, StreamValid(r, 40*m)...)
	case "C02":
		out = append(out, StreamConjuncts(r)...)
		out = append(out, StreamForeign(r, 250*m)...)
		out = append(out, StreamBindings(r, 150*m)...)
		out = append(out, StreamValid(r, 40*m)...)
	}
	return out
}

var rules = map[string]string{
	"C08": "SSO requests over generated SP metadata (1-3 ACS entries with bindings from POST/Redirect/Artifact/PAOS/unknown, index/isDefault mixes, ACS URLs with query), requested bindings, late failures (destination, persistence fault), early faults, plus the valid / one-conjunct-violated / signed streams; each is served by the real handler, the CreateAuthRequest log and the reply are checked by the C08 oracle and the projected observation is compared with the Coq model. distinct = (stream, mutation, transport, reply kind, status, #persisted).",
	"C06": "one scenario per violated (or boundary) validity condition x {Redirect, POST} (empty request, SigAlg without Signature, encodings, base64/inflate/XML defects, root element, Issuer absent/empty/unregistered/look-alike, ID, Version, Destination variants, NotBefore/NotOnOrAfter offsets from seconds to years and 8 lexical forms), plus valid and binding streams; the C06 oracle re-evaluates the conditions on the submitted bytes with a generic XML walk whenever a request was persisted. distinct as for C08.",
	"C05": "signing flags (AuthnRequestsSigned absent/false/0/true/1 x WantAuthRequestsSigned ''/false/true/1 x SP certificate registered or not) x binding x {unsigned, rsa-sha1, rsa-sha256} x signing key {registered, foreign} x KeyInfo on/off x mutations of the signed message (bit flips in message / signature, stripping, SigAlg without Signature, RelayState swap, algorithm substitution, moving the message to the other binding, foreign KeyInfo, wrapped certificate text, query/body splitting); the simulated SP records what it signed and the C05 oracle checks every persisted request against it. distinct as for C08.",
	"C02": "requests naming foreign AssertionConsumerServiceURL / Index / Destination / extra parameters against SP metadata with 1-3 ACS entries (URLs with query strings), binding mixes and late failures; the C02 oracle checks the persisted pair and the form action / Location / Destination of every reply against the registered entries. distinct as for C08.",
}

// Run is the entry point for C02, C05, C06, C08.
func Run(prop, dir, tier string, seed int64) error {
	r := rand.New(rand.NewSource(seed))
	sc := scenariosFor(prop, tier, r)
	oracles := map[string][]oracleFn{"C08": {OracleC08, OracleC02}, "C06": {OracleC06}, "C05": {OracleC05}, "C02": {OracleC02}}
	return runAll(prop, dir, tier, seed, sc, rules[prop], oracles[prop]...)
}
