// Package attrquery drives the SOAP attribute-query endpoint (C12).
package attrquery

import (
	"fmt"
	"math/rand"
	"net/http"
	"sort"
	"strings"

	samlxml "github.com/zitadel/saml/pkg/provider/xml"

	"verif/harness/internal/coqgen"
	"verif/harness/internal/idp"
	"verif/harness/internal/sso"
)

const issuer = "https://idp.example/saml"
const spEntity = "https://sp.example/metadata"
const attrLoc = "https://idp.example/saml/attribute"
const basic = "urn:oasis:names:tc:SAML:2.0:attrname-format:basic"

type ReqAttr struct {
	Name, Format string
	NoName       bool // the Name attribute is left out altogether (Name is then "")
}

type Scenario struct {
	Mut         string     `json:"mut"`
	ID          string     `json:"id"`
	Issuer      *string    `json:"issuer"`
	NameID      *string    `json:"nameid"`
	NoSubject   bool       `json:"no_subject,omitempty"`
	NoBody      bool       `json:"no_body,omitempty"`
	NoQuery     bool       `json:"no_query,omitempty"`
	Destination *string    `json:"destination,omitempty"`
	Requested   []ReqAttr  `json:"requested"`
	Sig         string     `json:"sig,omitempty"` // "", fake, fake-nokeyinfo, fake-foreign-cert, empty-value
	Known       bool       `json:"registered"`
	Fault       *idp.Fault `json:"fault,omitempty"`
	Alg         string     `json:"alg"`
	User        *idp.User  `json:"user,omitempty"`
}

func pick[T any](r *rand.Rand, xs []T) T { return xs[r.Intn(len(xs))] }

func (s *Scenario) body() string {
	var sb strings.Builder
	sb.WriteString(`<soap:Envelope xmlns:soap="http://schemas.xmlsoap.org/soap/envelope/">`)
	if !s.NoBody {
		sb.WriteString(`<soap:Body>`)
		if !s.NoQuery {
			fmt.Fprintf(&sb, `<samlp:AttributeQuery xmlns:samlp="urn:oasis:names:tc:SAML:2.0:protocol" xmlns:saml="urn:oasis:names:tc:SAML:2.0:assertion" xmlns:ds="http://www.w3.org/2000/09/xmldsig#" ID="%s" Version="2.0" IssueInstant="2024-01-01T00:00:00Z"`, idp.EscAttr(s.ID))
			if s.Destination != nil {
				fmt.Fprintf(&sb, ` Destination="%s"`, idp.EscAttr(*s.Destination))
			}
			sb.WriteString(">")
			if s.Issuer != nil {
				fmt.Fprintf(&sb, `<saml:Issuer>%s</saml:Issuer>`, idp.EscAttr(*s.Issuer))
			}
			_, _, sp, other := idp.Keys()
			switch s.Sig {
			case "fake":
				fmt.Fprintf(&sb, `<ds:Signature><ds:SignedInfo/><ds:SignatureValue>Zm9yZ2Vk</ds:SignatureValue><ds:KeyInfo><ds:X509Data><ds:X509Certificate>%s</ds:X509Certificate></ds:X509Data></ds:KeyInfo></ds:Signature>`, sp.CertB64())
			case "fake-nokeyinfo":
				sb.WriteString(`<ds:Signature><ds:SignedInfo/><ds:SignatureValue>Zm9yZ2Vk</ds:SignatureValue></ds:Signature>`)
			case "fake-foreign-cert":
				fmt.Fprintf(&sb, `<ds:Signature><ds:SignedInfo/><ds:SignatureValue>Zm9yZ2Vk</ds:SignatureValue><ds:KeyInfo><ds:X509Data><ds:X509Certificate>%s</ds:X509Certificate></ds:X509Data></ds:KeyInfo></ds:Signature>`, other.CertB64())
			case "blank-value":
				sb.WriteString(`<ds:Signature><ds:SignedInfo/><ds:SignatureValue> </ds:SignatureValue></ds:Signature>`)
			case "blank-value-lines":
				sb.WriteString("<ds:Signature><ds:SignedInfo/><ds:SignatureValue>\n    \t\n  </ds:SignatureValue></ds:Signature>")
			case "empty-value":
				fmt.Fprintf(&sb, `<ds:Signature><ds:SignedInfo/><ds:SignatureValue></ds:SignatureValue><ds:KeyInfo><ds:X509Data><ds:X509Certificate>%s</ds:X509Certificate></ds:X509Data></ds:KeyInfo></ds:Signature>`, sp.CertB64())
			}
			if !s.NoSubject {
				sb.WriteString(`<saml:Subject>`)
				if s.NameID != nil {
					fmt.Fprintf(&sb, `<saml:NameID>%s</saml:NameID>`, idp.EscAttr(*s.NameID))
				}
				sb.WriteString(`</saml:Subject>`)
			}
			for _, a := range s.Requested {
				if a.NoName {
					sb.WriteString(`<saml:Attribute`)
				} else {
					fmt.Fprintf(&sb, `<saml:Attribute Name="%s"`, idp.EscAttr(a.Name))
				}
				if a.Format != "" {
					fmt.Fprintf(&sb, ` NameFormat="%s"`, idp.EscAttr(a.Format))
				}
				sb.WriteString(`/>`)
			}
			sb.WriteString(`</samlp:AttributeQuery>`)
		}
		sb.WriteString(`</soap:Body>`)
	}
	sb.WriteString(`</soap:Envelope>`)
	return sb.String()
}

var stdNames = []string{"Email", "SurName", "FirstName", "FullName", "UserName", "UserID"}

func randUser(r *rand.Rand) *idp.User {
	f := func() string {
		if r.Intn(3) == 0 {
			return ""
		}
		return pick(r, []string{"v", "a&b", "<x>", "ü"})
	}
	u := &idp.User{Email: f(), FullName: f(), GivenName: f(), Surname: f(), Username: pick(r, []string{"login", "user&name", ""}), UserID: f()}
	seen := map[string]bool{}
	for i := r.Intn(4); i > 0; i-- {
		n := pick(r, []string{"groups", "role", "Email", "x y"})
		if seen[n] {
			continue
		}
		seen[n] = true
		var vs []string
		for j := r.Intn(3); j > 0; j-- {
			vs = append(vs, pick(r, []string{"g1", "g\"2", ""}))
		}
		u.Custom = append(u.Custom, idp.CustomAttr{Name: n, Friendly: pick(r, []string{"", "F"}), Format: pick(r, []string{"", basic, "urn:fmt"}), Values: vs})
	}
	return u
}

func coqUser(u *idp.User) string {
	if u == nil {
		return "None"
	}
	cs := append([]idp.CustomAttr(nil), u.Custom...)
	sort.Slice(cs, func(i, j int) bool { return cs[i].Name < cs[j].Name })
	var ca []string
	for _, c := range cs {
		ca = append(ca, fmt.Sprintf("{| ca_name := %s; ca_friendly := %s; ca_format := %s; ca_values := %s |}", coqgen.Bytes(c.Name), coqgen.Bytes(c.Friendly), coqgen.Bytes(c.Format), coqgen.BytesList(c.Values)))
	}
	return fmt.Sprintf("(Some {| u_email := %s; u_fullname := %s; u_given := %s; u_surname := %s; u_username := %s; u_userid := %s; u_custom := %s |})",
		coqgen.Bytes(u.Email), coqgen.Bytes(u.FullName), coqgen.Bytes(u.GivenName), coqgen.Bytes(u.Surname), coqgen.Bytes(u.Username), coqgen.Bytes(u.UserID), coqgen.List(ca))
}

type Obs struct {
	Kind                          int
	IRT, Issuer, Audience, NameID string
	Attrs                         [][]string
	Signed                        bool
}

func project(rep *idp.Reply) Obs {
	o := Obs{}
	switch rep.Kind {
	case "saml-body":
		o.Kind = 2
	case "http-error":
		o.Kind = 5
	case "panic":
		o.Kind = 6
	default:
		o.Kind = 7
	}
	if d := rep.Doc; d != nil && d.Local == "Envelope" {
		resp := d.Path("Body", "Response")
		o.IRT = resp.AttrOr("InResponseTo", "")
		o.Issuer = resp.Child("Issuer").TextOf()
		as := resp.Child("Assertion")
		o.NameID = as.Path("Subject", "NameID").TextOf()
		o.Audience = as.Path("Conditions", "AudienceRestriction", "Audience").TextOf()
		o.Signed = as.Child("Signature") != nil
		for _, stmt := range as.ChildrenNamed("AttributeStatement") {
			for _, a := range stmt.ChildrenNamed("Attribute") {
				row := []string{a.AttrOr("Name", ""), a.AttrOr("FriendlyName", ""), a.AttrOr("NameFormat", "")}
				for _, v := range a.ChildrenNamed("AttributeValue") {
					row = append(row, v.Text)
				}
				o.Attrs = append(o.Attrs, row)
			}
		}
		// custom attributes come from a Go map: sort everything after the leading standard attributes by name (stable)
		std := map[string]bool{}
		for _, n := range stdNames {
			std[n] = true
		}
		i := 0
		for i < len(o.Attrs) && std[o.Attrs[i][0]] && o.Attrs[i][1] == "" && o.Attrs[i][2] == basic && len(o.Attrs[i]) == 4 {
			i++
		}
		tail := append([][]string(nil), o.Attrs[i:]...)
		sort.SliceStable(tail, func(a, b int) bool { return tail[a][0] < tail[b][0] })
		o.Attrs = append(o.Attrs[:i:i], tail...)
	}
	return o
}

func Run(dir, tier string, seed int64) error {
	run := coqgen.NewRun(dir, "C12", tier, seed)
	run.Imports = "From Saml Require Import Base.Bytes Gen.Pure Idp.Sso Idp.Callback Core.Attrs Idp.AttrQuery Xml.Unmarshal Corr.AttrQueryCorr."
	run.CaseType = "aq_case"
	run.BadFn = "aq_bad"
	run.PerShard = 150
	r := rand.New(rand.NewSource(seed))
	n := 450
	if tier == "thorough" {
		n = 4500
	}
	envs := map[string]*idp.Env{}
	env := func(alg string) *idp.Env {
		if e, ok := envs[alg]; ok {
			return e
		}
		conf := idp.DefaultConf()
		conf.IDPConfig.SignatureAlgorithm = alg
		e, err := idp.NewEnv(idp.EnvConfig{Issuer: issuer, Conf: conf})
		if err != nil {
			panic(err)
		}
		envs[alg] = e
		return e
	}
	muts := []func(*Scenario){
		func(s *Scenario) { s.Mut = "valid" }, func(s *Scenario) { s.Mut = "valid" }, func(s *Scenario) { s.Mut = "valid" },
		func(s *Scenario) { s.Mut = "issuer-unknown"; s.Issuer = idp.S("https://other.example/md") },
		func(s *Scenario) { s.Mut = "issuer-absent"; s.Issuer = nil },
		func(s *Scenario) { s.Mut = "issuer-padded"; s.Issuer = idp.S(" " + spEntity + " ") },
		func(s *Scenario) { s.Mut = "issuer-case"; s.Issuer = idp.S(strings.ToUpper(spEntity)) },
		func(s *Scenario) { s.Mut = "issuer-trailing-slash"; s.Issuer = idp.S(spEntity + "/") },
		func(s *Scenario) { s.Mut = "issuer-empty"; s.Issuer = idp.S("") },
		func(s *Scenario) { s.Mut = "sp-unregistered"; s.Known = false },
		func(s *Scenario) { s.Mut = "no-nameid"; s.NameID = nil },
		func(s *Scenario) { s.Mut = "no-subject"; s.NoSubject = true },
		func(s *Scenario) { s.Mut = "no-query"; s.NoQuery = true },
		func(s *Scenario) { s.Mut = "no-body"; s.NoBody = true },
		func(s *Scenario) { s.Mut = "user-unknown"; s.NameID = idp.S("nobody") },
		func(s *Scenario) { s.Mut = "destination-attribute-service"; s.Destination = idp.S(attrLoc) },
		func(s *Scenario) { s.Mut = "destination-sso"; s.Destination = idp.S("https://idp.example/saml/SSO") },
		func(s *Scenario) { s.Mut = "destination-evil"; s.Destination = idp.S("https://evil.example/attribute") },
		func(s *Scenario) { s.Mut = "destination-empty"; s.Destination = idp.S("") },
		func(s *Scenario) { s.Mut = "sig-fake"; s.Sig = "fake" },
		func(s *Scenario) { s.Mut = "sig-fake-nokeyinfo"; s.Sig = "fake-nokeyinfo" },
		func(s *Scenario) { s.Mut = "sig-fake-foreign-cert"; s.Sig = "fake-foreign-cert" },
		func(s *Scenario) { s.Mut = "sig-empty-value"; s.Sig = "empty-value" },
		func(s *Scenario) { s.Mut = "sig-blank-value"; s.Sig = "blank-value" },
		func(s *Scenario) { s.Mut = "sig-blank-value-lines"; s.Sig = "blank-value-lines" },
		func(s *Scenario) {
			s.Mut = "fault-lookup"
			s.Fault = &idp.Fault{Op: "GetEntityByID", Nth: 1, Kind: "error"}
		},
		func(s *Scenario) {
			s.Mut = "fault-userinfo"
			s.Fault = &idp.Fault{Op: "SetUserinfoWithLoginName", Nth: 1, Kind: "error"}
		},
		func(s *Scenario) {
			s.Mut = "fault-key-1"
			s.Fault = &idp.Fault{Op: "GetResponseSigningKey", Nth: 1, Kind: "error"}
		},
		func(s *Scenario) {
			s.Mut = "fault-key-2"
			s.Fault = &idp.Fault{Op: "GetResponseSigningKey", Nth: 2, Kind: "nokey"}
		},
		func(s *Scenario) { s.Mut = "alg-unusable"; s.Alg = "http://example.org/unusable" },
	}
	reqPool := []ReqAttr{{Name: "Email", Format: basic}, {Name: "Email"}, {Name: "Email", Format: "urn:fmt"}, {Name: "UserName", Format: basic}, {Name: "groups"}, {Name: "groups", Format: "urn:fmt"},
		{Name: "groups", Format: basic}, {Name: "nosuch", Format: basic}, {Name: "role"}, {Name: "x y"},
		// requested attributes that can match nothing: empty or absent Name (they are requests all the same: the answer is then empty, not everything)
		{Name: ""}, {Name: "", Format: basic}, {NoName: true}, {NoName: true, Format: basic}}
	for id := 0; id < n; id++ {
		s := &Scenario{ID: pick(r, []string{"_aq1", "id&1", "ü"}), Issuer: idp.S(spEntity), NameID: idp.S(pick(r, []string{"login", "user&name"})), Known: true, Alg: idp.RSASHA256, User: randUser(r)}
		for k := r.Intn(4); k > 0; k-- {
			s.Requested = append(s.Requested, pick(r, reqPool))
		}
		if r.Intn(5) == 0 && len(s.Requested) > 0 {
			s.Requested = append(s.Requested, s.Requested[0]) // duplicate request entry
		}
		if r.Intn(8) == 0 { // only requests that designate nothing
			s.Requested = nil
			for k := 1 + r.Intn(2); k > 0; k-- {
				s.Requested = append(s.Requested, pick(r, reqPool[len(reqPool)-4:]))
			}
		}
		muts[id%len(muts)](s)
		e := env(s.Alg)
		st := e.Storage
		st.ClearSPs()
		st.Faults = nil
		st.Logins = map[string]*idp.User{"login": s.User, "user&name": s.User}
		if s.Known {
			if _, err := st.Register("app-1", sso.BaseSP(nil, true)); err != nil {
				return err
			}
		}
		body := s.body()
		// abstract inputs via exported functions
		coqDec, coqSP, coqUsr := "None", "None", "None"
		spDoc := "None"
		answeredPossible := false
		if q, err := samlxml.DecodeAttributeQuery(body); err == nil && q != nil {
			iss, nid := "None", "None"
			if q.Issuer != nil {
				iss = "(Some " + coqgen.Bytes(q.Issuer.Text) + ")"
			}
			if q.Subject.NameID != nil {
				nid = "(Some " + coqgen.Bytes(q.Subject.NameID.Text) + ")"
			}
			var ras []string
			for _, a := range q.Attribute {
				ras = append(ras, fmt.Sprintf("(%s, %s)", coqgen.Bytes(a.Name), coqgen.Bytes(a.NameFormat)))
			}
			sig := "None"
			if q.Signature != nil {
				ki := "None"
				if q.Signature.KeyInfo != nil {
					var cs []string
					for _, x := range q.Signature.KeyInfo.X509Data {
						cs = append(cs, idp.CertText(x.X509Certificate))
					}
					ki = "(Some " + coqgen.BytesList(cs) + ")"
				}
				sig = fmt.Sprintf("(Some {| sg_keyinfo := %s; sg_value := %s |})", ki, coqgen.Bytes(q.Signature.SignatureValue.Text))
			}
			coqDec = fmt.Sprintf("(Some {| aq_id := %s; aq_issuer := %s; aq_nameid := %s; aq_destination := %s; aq_attrs := %s; aq_signature := %s |})",
				coqgen.Bytes(q.Id), iss, nid, coqgen.Bytes(q.Destination), coqgen.List(ras), sig)
			if q.Issuer != nil && !(s.Fault != nil && s.Fault.Op == "GetEntityByID") {
				if sp, ok := st.SPs[q.Issuer.Text]; ok {
					coqSP = sso.CoqSP(sp)
					spDoc = st.SPDocTerm(sp)
					answeredPossible = true
				}
			}
			if q.Subject.NameID != nil && !(s.Fault != nil && s.Fault.Op == "SetUserinfoWithLoginName") {
				if u, ok := st.Logins[q.Subject.NameID.Text]; ok {
					coqUsr = coqUser(u)
				}
			}
		}
		cert1, cert2 := true, true
		if s.Fault != nil && s.Fault.Op == "GetResponseSigningKey" {
			if s.Fault.Nth == 1 {
				cert1 = false
			} else {
				cert2 = false
			}
		}
		signOK := s.Alg == idp.RSASHA256 || s.Alg == idp.RSASHA1
		st.ResetLog()
		if s.Fault != nil {
			st.Faults = []idp.Fault{*s.Fault}
		}
		rep := e.Do(idp.ReqSpec{Method: http.MethodPost, Path: "/attribute", RawBody: &body}.HTTP())
		o := project(rep)
		run.Res.Evaluations++
		var as []string
		for _, a := range o.Attrs {
			as = append(as, fmt.Sprintf("{| at_name := %s; at_friendly := %s; at_format := %s; at_values := %s |}", coqgen.Bytes(a[0]), coqgen.Bytes(a[1]), coqgen.Bytes(a[2]), coqgen.BytesList(a[3:])))
		}
		obs := fmt.Sprintf("{| ao_kind := %s; ao_irt := %s; ao_issuer := %s; ao_audience := %s; ao_nameid := %s; ao_attrs := %s |}",
			coqgen.Z(int64(o.Kind)), coqgen.Bytes(o.IRT), coqgen.Bytes(o.Issuer), coqgen.Bytes(o.Audience), coqgen.Bytes(o.NameID), coqgen.List(as))
		coq := fmt.Sprintf("{| ac_id := %s; ac_dec := %s; ac_sp := %s; ac_verify := false; ac_locs := %s; ac_user := %s; ac_cert1 := %s; ac_cert2 := %s; ac_sign := %s; ac_eid := %s; ac_obs := %s; ac_spdoc := %s; ac_doc := %s |}",
			coqgen.Z(int64(id)), coqDec, coqSP, coqgen.BytesList([]string{attrLoc}), coqUsr, coqgen.Bool(cert1), coqgen.Bool(cert2), coqgen.Bool(signOK), coqgen.Bytes(issuer+"/metadata"), obs, spDoc, idp.DocTreeTerm([]byte(body)))
		desc := map[string]interface{}{"scenario": s, "body": body, "observed": o, "reply_kind": rep.Kind, "code": rep.Code, "panic": rep.Panic}
		run.AddCase(id, coq, desc)
		run.Count("mut=" + s.Mut)
		run.Count("reply=" + rep.Kind)
		run.Distinct(fmt.Sprintf("%s/req%d->%d/%d", s.Mut, len(s.Requested), o.Kind, len(o.Attrs)))
		if id%43 == 5 {
			run.Sample(map[string]interface{}{"mut": s.Mut, "body": body, "observed": o})
		}
		fail := func(class, what string) { run.Fail(coqgen.Failure{ID: id, Class: class, What: what, Input: desc}) }
		// ---- independent oracle
		if o.Kind == 6 {
			fail("panic:attrquery", rep.Panic)
			continue
		}
		if o.Kind != 2 {
			continue
		}
		_ = answeredPossible
		if !s.Known || s.Issuer == nil || *s.Issuer != spEntity {
			fail("answered-unregistered-requester", "user data returned to an issuer that is not a registered service provider")
		}
		if s.Sig != "" && s.Sig != "empty-value" {
			fail("answered-unverified-signature", "query carries a signature value that does not verify, yet it was answered")
		}
		if s.Destination != nil && *s.Destination != "" && *s.Destination != attrLoc {
			fail("answered-foreign-destination", "Destination "+*s.Destination+" is not the advertised attribute service")
		}
		if len(st.Fired) > 0 || !signOK {
			fail("answered-despite-fault", fmt.Sprintf("faults %v / unusable algorithm, yet answered", st.Fired))
		}
		if !o.Signed {
			fail("answer-unsigned", "assertion in the answer is not signed")
		}
		if o.IRT != s.ID || o.Audience != spEntity || o.Issuer != issuer+"/metadata" {
			fail("answer-binding-mismatch", fmt.Sprintf("InResponseTo %q Audience %q Issuer %q", o.IRT, o.Audience, o.Issuer))
		}
		if s.NameID != nil && o.NameID != s.User.Username {
			fail("answer-wrong-subject", fmt.Sprintf("NameID %q, user %q", o.NameID, s.User.Username))
		}
		// attribute set: exactly the user's attributes whose (name, format) was requested (all if none requested)
		want := map[string]bool{}
		all := expected(s.User)
		for _, a := range all {
			if len(s.Requested) == 0 {
				want[strings.Join(a, "\x00")] = true
			}
			for _, q := range s.Requested {
				if a[0] == q.Name && a[2] == q.Format {
					want[strings.Join(a, "\x00")] = true
				}
			}
		}
		got := map[string]bool{}
		for _, a := range o.Attrs {
			got[strings.Join(a, "\x00")] = true
		}
		for k := range got {
			if !want[k] {
				fail("answer-discloses-unrequested-attribute", strings.ReplaceAll(k, "\x00", " | "))
			}
		}
		for k := range want {
			if !got[k] {
				fail("answer-omits-requested-attribute", strings.ReplaceAll(k, "\x00", " | "))
			}
		}
	}
	run.Res.Rule = "SOAP attribute queries over 22 mutation classes (valid; Issuer unknown / absent; SP unregistered; Subject / NameID / AttributeQuery / Body absent; unknown user; Destination = attribute service / SSO location / foreign / empty; forged signature with registered / foreign / no KeyInfo or empty value; storage and key faults at each call; unusable algorithm) x 0-4 requested attributes (matching, non-matching on name or format, duplicates) x random user records; real handler vs Coq model and an independent set-based oracle. distinct = (mutation, #requested, reply kind, #attributes)."
	return run.Finish()
}

func expected(u *idp.User) [][]string {
	var out [][]string
	add := func(n, v string) {
		if v != "" {
			out = append(out, []string{n, "", basic, v})
		}
	}
	add("Email", u.Email)
	add("SurName", u.Surname)
	add("FirstName", u.GivenName)
	add("FullName", u.FullName)
	add("UserName", u.Username)
	add("UserID", u.UserID)
	for _, c := range u.Custom {
		out = append(out, append([]string{c.Name, c.Friendly, c.Format}, c.Values...))
	}
	return out
}
