package idp

import (
	"bytes"
	"compress/flate"
	"crypto"
	"crypto/rand"
	"crypto/rsa"
	"crypto/sha1"
	"crypto/sha256"
	"crypto/tls"
	"encoding/base64"
	"fmt"
	"net/http"
	"net/http/httptest"
	"net/url"
	"strings"
	"time"

	"github.com/beevik/etree"
	dsig "github.com/russellhaering/goxmldsig"
)

const (
	NSProtocol      = "urn:oasis:names:tc:SAML:2.0:protocol"
	NSAssertion     = "urn:oasis:names:tc:SAML:2.0:assertion"
	PostBinding     = "urn:oasis:names:tc:SAML:2.0:bindings:HTTP-POST"
	RedirBinding    = "urn:oasis:names:tc:SAML:2.0:bindings:HTTP-Redirect"
	ArtifactBinding = "urn:oasis:names:tc:SAML:2.0:bindings:HTTP-Artifact"
	PAOSBinding     = "urn:oasis:names:tc:SAML:2.0:bindings:PAOS"
	Deflate         = "urn:oasis:names:tc:SAML:2.0:bindings:URL-Encoding:DEFLATE"
	RSASHA1         = "http://www.w3.org/2000/09/xmldsig#rsa-sha1"
	RSASHA256       = "http://www.w3.org/2001/04/xmldsig-more#rsa-sha256"
)

func S(s string) *string { return &s }

// Style: serialisation choices a conformant SP may make
type Style struct {
	P, A        string // prefixes for protocol / assertion namespace ("" = default namespace declaration on the element)
	Decl        bool   // XML declaration
	Indent      bool   // whitespace and a comment between elements
	SingleQuote bool
}

var DefaultStyle = Style{P: "samlp", A: "saml"}

type AuthnReq struct {
	ID, Version, IssueInstant, Destination, ProtocolBinding, ACSURL, ACSIndex *string
	Issuer                                                                    *string
	IssuerTwice                                                               bool
	Conditions                                                                bool
	NotBefore, NotOnOrAfter                                                   *string
	NameIDPolicy                                                              bool
	Extra                                                                     string // raw XML inside the root, after the known children
	Trailing                                                                  string // raw bytes after the root element
}

func attr(sb *strings.Builder, st Style, name string, v *string) {
	if v == nil {
		return
	}
	q := `"`
	val := EscAttr(*v)
	if st.SingleQuote {
		q = `'`
		val = strings.ReplaceAll(strings.ReplaceAll(val, "&#34;", `"`), "'", "&#39;")
	}
	fmt.Fprintf(sb, " %s=%s%s%s", name, q, val, q)
}
func qn(p, local string) string {
	if p == "" {
		return local
	}
	return p + ":" + local
}
func nsDecl(p, ns string) string {
	if p == "" {
		return fmt.Sprintf(` xmlns="%s"`, ns)
	}
	return fmt.Sprintf(` xmlns:%s="%s"`, p, ns)
}

func (a AuthnReq) XML(st Style) []byte {
	var sb strings.Builder
	nl := ""
	if st.Indent {
		nl = "\n  "
	}
	if st.Decl {
		sb.WriteString(`<?xml version="1.0" encoding="UTF-8"?>` + "\n")
	}
	sb.WriteString("<" + qn(st.P, "AuthnRequest") + nsDecl(st.P, NSProtocol))
	if st.A != "" || st.P != "" {
		if st.A != "" {
			sb.WriteString(nsDecl(st.A, NSAssertion))
		}
	}
	attr(&sb, st, "ID", a.ID)
	attr(&sb, st, "Version", a.Version)
	attr(&sb, st, "IssueInstant", a.IssueInstant)
	attr(&sb, st, "Destination", a.Destination)
	attr(&sb, st, "ProtocolBinding", a.ProtocolBinding)
	attr(&sb, st, "AssertionConsumerServiceURL", a.ACSURL)
	attr(&sb, st, "AssertionConsumerServiceIndex", a.ACSIndex)
	sb.WriteString(">")
	issuer := func() {
		if a.Issuer != nil {
			if st.A == "" {
				fmt.Fprintf(&sb, `%s<Issuer xmlns="%s">%s</Issuer>`, nl, NSAssertion, EscAttr(*a.Issuer))
			} else {
				fmt.Fprintf(&sb, "%s<%s>%s</%s>", nl, qn(st.A, "Issuer"), EscAttr(*a.Issuer), qn(st.A, "Issuer"))
			}
		}
	}
	issuer()
	if a.IssuerTwice {
		issuer()
	}
	if st.Indent {
		sb.WriteString(nl + "<!-- a comment -->")
	}
	if a.NameIDPolicy {
		fmt.Fprintf(&sb, `%s<%s Format="urn:oasis:names:tc:SAML:1.1:nameid-format:emailAddress" AllowCreate="true"/>`, nl, qn(st.P, "NameIDPolicy"))
	}
	if a.Conditions || a.NotBefore != nil || a.NotOnOrAfter != nil {
		if st.A == "" {
			fmt.Fprintf(&sb, `%s<Conditions xmlns="%s"`, nl, NSAssertion)
		} else {
			sb.WriteString(nl + "<" + qn(st.A, "Conditions"))
		}
		attr(&sb, st, "NotBefore", a.NotBefore)
		attr(&sb, st, "NotOnOrAfter", a.NotOnOrAfter)
		sb.WriteString("/>")
	}
	sb.WriteString(a.Extra)
	if st.Indent {
		sb.WriteString("\n")
	}
	sb.WriteString("</" + qn(st.P, "AuthnRequest") + ">")
	sb.WriteString(a.Trailing)
	return []byte(sb.String())
}

func DeflateB64(b []byte) string {
	var buf bytes.Buffer
	w, _ := flate.NewWriter(&buf, 9)
	w.Write(b)
	w.Close()
	return base64.StdEncoding.EncodeToString(buf.Bytes())
}
func B64(b []byte) string { return base64.StdEncoding.EncodeToString(b) }

// SignRedirect signs SAMLRequest/RelayState/SigAlg exactly as the HTTP-Redirect binding prescribes,
// over the given percent-encoded octets; returns base64(signature).
func SignRedirect(k *rsa.PrivateKey, alg string, signedOctets string) string {
	var sig []byte
	switch alg {
	case RSASHA1:
		h := sha1.Sum([]byte(signedOctets))
		sig, _ = rsa.SignPKCS1v15(rand.Reader, k, crypto.SHA1, h[:])
	default:
		h := sha256.Sum256([]byte(signedOctets))
		sig, _ = rsa.SignPKCS1v15(rand.Reader, k, crypto.SHA256, h[:])
	}
	return base64.StdEncoding.EncodeToString(sig)
}

// RedirectOctets builds "SAMLRequest=..&RelayState=..&SigAlg=.." with esc as the percent-encoder.
func RedirectOctets(name, msg, relay, alg string, esc func(string) string) string {
	s := name + "=" + esc(msg)
	if relay != "" {
		s += "&RelayState=" + esc(relay)
	}
	return s + "&SigAlg=" + esc(alg)
}

// SignEnveloped signs the document with an enveloped XML signature (goxmldsig, exclusive C14N).
// afterIssuer moves the Signature element right behind the first child (schema position).
func SignEnveloped(doc []byte, kp *KeyPair, alg string, keyInfo bool, afterIssuer bool) ([]byte, error) {
	d := etree.NewDocument()
	if err := d.ReadFromBytes(doc); err != nil {
		return nil, err
	}
	ctx := dsig.NewDefaultSigningContext(dsig.TLSCertKeyStore(tls.Certificate{Certificate: [][]byte{kp.CertDER}, PrivateKey: kp.Key}))
	ctx.Canonicalizer = dsig.MakeC14N10ExclusiveCanonicalizerWithPrefixList("")
	if err := ctx.SetSignatureMethod(alg); err != nil {
		return nil, err
	}
	signed, err := ctx.SignEnveloped(d.Root())
	if err != nil {
		return nil, err
	}
	if n := len(signed.Child); n > 0 {
		if sig, ok := signed.Child[n-1].(*etree.Element); ok && sig.Tag == "Signature" {
			if !keyInfo {
				if ki := sig.FindElement("./KeyInfo"); ki != nil {
					sig.RemoveChild(ki)
				}
			}
			if afterIssuer {
				// goxmldsig appends the signature to the Child slice directly (no parent link), so etree's RemoveChild does
				// not find it: rebuild the child list
				kids := append([]etree.Token(nil), signed.Child[:n-1]...)
				fresh := etree.NewElement(signed.Tag)
				fresh.Space = signed.Space
				fresh.Attr = append([]etree.Attr(nil), signed.Attr...)
				placed := false
				add := func(t etree.Token) {
					switch x := t.(type) {
					case *etree.Element:
						fresh.AddChild(x.Copy())
					case *etree.CharData:
						fresh.CreateText(x.Data)
					case *etree.Comment:
						fresh.CreateComment(x.Data)
					}
				}
				for _, c := range kids {
					add(c)
					if e, ok := c.(*etree.Element); ok && e.Tag == "Issuer" && !placed {
						add(sig)
						placed = true
					}
				}
				if !placed {
					add(sig)
				}
				signed = fresh
			}
		}
	}
	out := etree.NewDocument()
	out.SetRoot(signed)
	return out.WriteToBytes()
}

// Param is one (name, value) pair placed raw (already percent-encoded) in a query or body.
type Param struct{ K, V string }

func encodeParams(ps []Param) string {
	var parts []string
	for _, p := range ps {
		parts = append(parts, p.K+"="+p.V)
	}
	return strings.Join(parts, "&")
}
func Q(k, v string) Param { return Param{k, url.QueryEscape(v)} }

// ReqSpec describes an HTTP request; HTTP() builds a fresh *http.Request each time.
type ReqSpec struct {
	Method  string              `json:"method"`
	Path    string              `json:"path"`
	Query   []Param             `json:"query,omitempty"`
	Body    []Param             `json:"body,omitempty"`
	RawBody *string             `json:"raw_body,omitempty"`
	Host    string              `json:"host,omitempty"`
	Header  map[string][]string `json:"header,omitempty"`
}

func (q ReqSpec) HTTP() *http.Request {
	target := q.Path
	if len(q.Query) > 0 {
		target += "?" + encodeParams(q.Query)
	}
	var r *http.Request
	switch {
	case q.RawBody != nil:
		r = httptest.NewRequest(q.Method, target, strings.NewReader(*q.RawBody))
	case q.Method == http.MethodPost:
		r = httptest.NewRequest(q.Method, target, strings.NewReader(encodeParams(q.Body)))
		r.Header.Set("Content-Type", "application/x-www-form-urlencoded")
	default:
		r = httptest.NewRequest(q.Method, target, nil)
	}
	if q.Host != "" {
		r.Host = q.Host
	}
	for k, vs := range q.Header {
		for _, v := range vs {
			r.Header.Add(k, v)
		}
	}
	return r
}

// NowInstant is the current time as an xs:dateTime in UTC
func NowInstant() string { return time.Now().UTC().Format("2006-01-02T15:04:05Z") }
