package idp

import (
	"fmt"
	"strings"

	"github.com/zitadel/saml/pkg/provider/serviceprovider"
)

type ACS struct {
	Index, IsDefault, Binding, Location string
	NoIsDefault                         bool
}
type SLO struct {
	Binding, Location string
	ResponseLocation  string `json:",omitempty"`
}
type CertEntry struct {
	Use  string // "", signing, encryption
	Text string
}

type SPMeta struct {
	EntityID             string
	AuthnRequestsSigned  *string
	WantAssertionsSigned *string
	ACS                  []ACS
	SLO                  []SLO
	Certs                []CertEntry
	NoSPSSO              bool
}

func (m SPMeta) XML() []byte {
	var sb strings.Builder
	fmt.Fprintf(&sb, `<md:EntityDescriptor xmlns:md="urn:oasis:names:tc:SAML:2.0:metadata" xmlns:ds="http://www.w3.org/2000/09/xmldsig#" entityID="%s">`, EscAttr(m.EntityID))
	if !m.NoSPSSO {
		sb.WriteString(`<md:SPSSODescriptor protocolSupportEnumeration="urn:oasis:names:tc:SAML:2.0:protocol"`)
		if m.AuthnRequestsSigned != nil {
			fmt.Fprintf(&sb, ` AuthnRequestsSigned="%s"`, EscAttr(*m.AuthnRequestsSigned))
		}
		if m.WantAssertionsSigned != nil {
			fmt.Fprintf(&sb, ` WantAssertionsSigned="%s"`, EscAttr(*m.WantAssertionsSigned))
		}
		sb.WriteString(`>`)
		for _, c := range m.Certs {
			sb.WriteString(`<md:KeyDescriptor`)
			if c.Use != "" {
				fmt.Fprintf(&sb, ` use="%s"`, c.Use)
			}
			fmt.Fprintf(&sb, `><ds:KeyInfo><ds:X509Data><ds:X509Certificate>%s</ds:X509Certificate></ds:X509Data></ds:KeyInfo></md:KeyDescriptor>`, EscAttr(c.Text))
		}
		for _, s := range m.SLO {
			fmt.Fprintf(&sb, `<md:SingleLogoutService Binding="%s" Location="%s"`, EscAttr(s.Binding), EscAttr(s.Location))
			if s.ResponseLocation != "" {
				fmt.Fprintf(&sb, ` ResponseLocation="%s"`, EscAttr(s.ResponseLocation))
			}
			sb.WriteString(`/>`)
		}
		for _, a := range m.ACS {
			fmt.Fprintf(&sb, `<md:AssertionConsumerService Binding="%s" Location="%s" index="%s"`, EscAttr(a.Binding), EscAttr(a.Location), EscAttr(a.Index))
			if !a.NoIsDefault && a.IsDefault != "" {
				fmt.Fprintf(&sb, ` isDefault="%s"`, EscAttr(a.IsDefault))
			}
			sb.WriteString(`/>`)
		}
		sb.WriteString(`</md:SPSSODescriptor>`)
	}
	sb.WriteString(`</md:EntityDescriptor>`)
	return []byte(sb.String())
}

const LoginBase = "https://login.example/ui?authRequestID="

func LoginURL(id string) string { return LoginBase + id }

// Register creates the ServiceProvider through the public API and stores it under its entity ID.
func (s *Storage) Register(appID string, m SPMeta) (*serviceprovider.ServiceProvider, error) {
	doc := m.XML()
	sp, err := serviceprovider.NewServiceProvider(appID, &serviceprovider.Config{Metadata: doc}, LoginURL)
	if err != nil {
		return nil, err
	}
	s.mu.Lock()
	if s.SPDocs == nil {
		s.SPDocs = map[*serviceprovider.ServiceProvider][]byte{}
	}
	s.SPDocs[sp] = append([]byte(nil), doc...)
	s.SPs[m.EntityID] = sp
	s.Apps[appID] = m.EntityID
	s.mu.Unlock()
	return sp, nil
}

// SPDocTerm: the metadata document a provider was registered with, as the resolved element tree ("(Some tree)"), or "None"
func (s *Storage) SPDocTerm(sp *serviceprovider.ServiceProvider) string {
	if sp == nil {
		return "None"
	}
	s.mu.Lock()
	doc, ok := s.SPDocs[sp]
	s.mu.Unlock()
	if !ok {
		return "None"
	}
	root, trailing, err := ResolvedTree(doc)
	if err != nil || trailing || root.HasContent("BaseID") || !root.AsciiCerts() {
		return "None"
	}
	return "(Some " + root.Coq() + ")"
}
