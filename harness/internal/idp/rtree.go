package idp

import (
	"bytes"
	"encoding/xml"
	"fmt"
	"io"

	"verif/harness/internal/coqgen"
)

// RNode: an element with names resolved by Go's decoder (Token, not RawToken), children and character data in document order
type RNode struct {
	Space, Local string
	Attrs        [][3]string
	Kids         []interface{} // string (character data) or *RNode
}

// ResolvedTree tokenises a document the way Unmarshal sees it; trailing reports content after the root element that
// unmarshalDocument refuses (anything but blanks, comments, processing instructions)
func ResolvedTree(doc []byte) (root *RNode, trailing bool, err error) {
	d := xml.NewDecoder(bytes.NewReader(doc))
	var stack []*RNode
	for {
		tok, e := d.Token()
		if e == io.EOF {
			break
		}
		if e != nil {
			return nil, false, e
		}
		switch t := tok.(type) {
		case xml.StartElement:
			if root != nil && len(stack) == 0 {
				trailing = true
				d.Skip()
				continue
			}
			n := &RNode{Space: t.Name.Space, Local: t.Name.Local}
			for _, a := range t.Attr {
				n.Attrs = append(n.Attrs, [3]string{a.Name.Space, a.Name.Local, a.Value})
			}
			if len(stack) == 0 {
				root = n
			} else {
				p := stack[len(stack)-1]
				p.Kids = append(p.Kids, n)
			}
			stack = append(stack, n)
		case xml.EndElement:
			if len(stack) > 0 {
				stack = stack[:len(stack)-1]
			}
		case xml.CharData:
			if len(stack) > 0 {
				p := stack[len(stack)-1]
				p.Kids = append(p.Kids, string(t))
			} else if root != nil && len(bytes.TrimSpace(t)) != 0 {
				trailing = true
			}
		case xml.Comment, xml.ProcInst:
		default:
			if root != nil && len(stack) == 0 {
				trailing = true
			}
		}
	}
	if root == nil || len(stack) != 0 {
		return nil, false, fmt.Errorf("no complete root element")
	}
	return root, trailing, nil
}

// Coq renders the tree as an rnode of Xml/Unmarshal.v
func (n *RNode) Coq() string {
	var as, ks []string
	for _, a := range n.Attrs {
		as = append(as, "("+coqgen.Bytes(a[0])+", "+coqgen.Bytes(a[1])+", "+coqgen.Bytes(a[2])+")")
	}
	for _, k := range n.Kids {
		switch x := k.(type) {
		case string:
			ks = append(ks, "(RText "+coqgen.Bytes(x)+")")
		case *RNode:
			ks = append(ks, x.Coq())
		}
	}
	return "(RElem " + coqgen.Bytes(n.Space) + " " + coqgen.Bytes(n.Local) + " " + coqgen.List(as) + " " + coqgen.List(ks) + ")"
}

// HasContent reports whether an element with the given local name occurs with any content
func (n *RNode) HasContent(local string) bool {
	if n.Local == local && len(n.Kids) > 0 {
		return true
	}
	for _, k := range n.Kids {
		if c, ok := k.(*RNode); ok && c.HasContent(local) {
			return true
		}
	}
	return false
}

// AsciiCerts: certificate texts are compared modulo white space; the model's notion of white space is the ASCII one
func (n *RNode) AsciiCerts() bool {
	if n.Local == "X509Certificate" {
		for _, k := range n.Kids {
			if s, ok := k.(string); ok {
				for i := 0; i < len(s); i++ {
					if s[i] >= 0x80 {
						return false
					}
				}
			}
		}
	}
	for _, k := range n.Kids {
		if c, ok := k.(*RNode); ok && !c.AsciiCerts() {
			return false
		}
	}
	return true
}

// DocTreeTerm is the Coq term "(Some (trailing, tree))" for a payload the library's decoder parses, or "None" when the
// payload is outside what the model of Unmarshal covers (not tokenisable, raw inner XML, non-ASCII certificate text)
func DocTreeTerm(data []byte) string {
	root, trailing, err := ResolvedTree(data)
	if err != nil || root.HasContent("BaseID") || !root.AsciiCerts() {
		return "None"
	}
	return fmt.Sprintf("(Some (%s, %s))", coqgen.Bool(trailing), root.Coq())
}
