package idp

import (
	"bytes"
	"encoding/xml"
	"fmt"
	"io"
	"strings"
)

// Node is a generic XML tree built from encoding/xml tokens (no typed decoding).
type Node struct {
	Space, Local string
	Attrs        []xml.Attr
	Children     []*Node
	Text         string // concatenated character data directly inside this element
}

// ParseXML parses exactly one document; trailing non-whitespace content is an error (strict).
func ParseXML(data []byte) (*Node, error) {
	d := xml.NewDecoder(bytes.NewReader(data))
	d.Strict = true
	var stack []*Node
	var root *Node
	for {
		tok, err := d.Token()
		if err == io.EOF {
			break
		}
		if err != nil {
			return nil, err
		}
		switch t := tok.(type) {
		case xml.StartElement:
			n := &Node{Space: t.Name.Space, Local: t.Name.Local, Attrs: append([]xml.Attr(nil), t.Attr...)}
			if len(stack) == 0 {
				if root != nil {
					return nil, fmt.Errorf("more than one root element")
				}
				root = n
			} else {
				p := stack[len(stack)-1]
				p.Children = append(p.Children, n)
			}
			stack = append(stack, n)
		case xml.EndElement:
			stack = stack[:len(stack)-1]
		case xml.CharData:
			if len(stack) > 0 {
				stack[len(stack)-1].Text += string(t)
			} else if strings.TrimSpace(string(t)) != "" {
				return nil, fmt.Errorf("character data outside the root element")
			}
		}
	}
	if root == nil {
		return nil, fmt.Errorf("no root element")
	}
	return root, nil
}

func (n *Node) Attr(local string) (string, bool) {
	if n == nil {
		return "", false
	}
	for _, a := range n.Attrs {
		if a.Name.Local == local && a.Name.Space == "" {
			return a.Value, true
		}
	}
	return "", false
}
func (n *Node) AttrOr(local, def string) string {
	if v, ok := n.Attr(local); ok {
		return v
	}
	return def
}

// Child returns the first child element with that local name
func (n *Node) Child(local string) *Node {
	if n == nil {
		return nil
	}
	for _, c := range n.Children {
		if c.Local == local {
			return c
		}
	}
	return nil
}
func (n *Node) ChildrenNamed(local string) []*Node {
	var out []*Node
	if n == nil {
		return nil
	}
	for _, c := range n.Children {
		if c.Local == local {
			out = append(out, c)
		}
	}
	return out
}
func (n *Node) Path(locals ...string) *Node {
	cur := n
	for _, l := range locals {
		cur = cur.Child(l)
	}
	return cur
}
func (n *Node) TextOf() string {
	if n == nil {
		return ""
	}
	return n.Text
}

// Walk visits all elements depth first
func (n *Node) Walk(f func(*Node)) {
	if n == nil {
		return
	}
	f(n)
	for _, c := range n.Children {
		c.Walk(f)
	}
}

func EscAttr(s string) string {
	var b bytes.Buffer
	xml.EscapeText(&b, []byte(s))
	return b.String()
}
