// Package idp is the shared test bench: an in-memory Storage with call log and fault plan, key material,
// SP metadata and request builders, and reply parsers that are independent of the library's own decoders.
package idp

import (
	"context"
	"crypto/rsa"
	"errors"
	"fmt"
	"io"
	"sync"

	"github.com/zitadel/saml/pkg/provider/key"
	"github.com/zitadel/saml/pkg/provider/models"
	"github.com/zitadel/saml/pkg/provider/serviceprovider"
	"github.com/zitadel/saml/pkg/provider/xml/samlp"
)

type Call struct {
	Op   string   `json:"op"`
	Args []string `json:"args,omitempty"`
}

// Fault makes the Nth (1-based) call of Op misbehave. Kind: error | nilrecord | nokey | nocert | emptycert | emptykey
type Fault struct {
	Op   string `json:"op"`
	Nth  int    `json:"nth"`
	Kind string `json:"kind"`
}

type CustomAttr struct {
	Name, Friendly, Format string
	Values                 []string
}

type User struct {
	Email, FullName, GivenName, Surname, Username, UserID string
	Custom                                                []CustomAttr
}

type AuthReq struct {
	ID, AppID, RelayState, ACS, Binding, AuthReqID, Issuer, Destination, UserID string
	IsDone                                                                      bool
}

func (a *AuthReq) GetID() string                       { return a.ID }
func (a *AuthReq) GetApplicationID() string            { return a.AppID }
func (a *AuthReq) GetRelayState() string               { return a.RelayState }
func (a *AuthReq) GetAccessConsumerServiceURL() string { return a.ACS }
func (a *AuthReq) GetBindingType() string              { return a.Binding }
func (a *AuthReq) GetAuthRequestID() string            { return a.AuthReqID }
func (a *AuthReq) GetIssuer() string                   { return a.Issuer }
func (a *AuthReq) GetDestination() string              { return a.Destination }
func (a *AuthReq) GetUserID() string                   { return a.UserID }
func (a *AuthReq) Done() bool                          { return a.IsDone }

type Storage struct {
	ErrEcho  bool // error texts repeat the key that was asked for (applications do that; the IdP echoes error texts in status messages)
	mu       sync.Mutex
	SPs      map[string]*serviceprovider.ServiceProvider
	SPDocs   map[*serviceprovider.ServiceProvider][]byte // the metadata document each provider was registered with
	Requests map[string]*AuthReq
	Apps     map[string]string
	Users    map[string]*User // by user id
	Logins   map[string]*User // by login name
	RespKey  *key.CertificateAndKey
	MetaKey  *key.CertificateAndKey
	Calls    []Call
	Tagged   map[string][]Call
	Faults   []Fault
	Fired    []Fault
	counts   map[string]int
	nextID   int
	IDPrefix string
}

func NewStorage() *Storage {
	return &Storage{SPs: map[string]*serviceprovider.ServiceProvider{}, Requests: map[string]*AuthReq{}, Apps: map[string]string{},
		Users: map[string]*User{}, Logins: map[string]*User{}, counts: map[string]int{}, IDPrefix: "rq+/=:~"} // identifiers with characters that are reserved in URLs: storage ids are opaque
}

func (s *Storage) ResetLog() {
	s.mu.Lock()
	defer s.mu.Unlock()
	s.Calls = nil
	s.Fired = nil
	s.counts = map[string]int{}
}

type tagKey struct{}

// WithTag marks a request so that the storage calls made on its behalf can be told apart under concurrency
func WithTag(ctx context.Context, tag string) context.Context {
	return context.WithValue(ctx, tagKey{}, tag)
}

// LogFor returns the calls made with the given tag
func (s *Storage) LogFor(tag string) []Call {
	s.mu.Lock()
	defer s.mu.Unlock()
	return append([]Call(nil), s.Tagged[tag]...)
}

func (s *Storage) enterCtx(ctx context.Context, op string, args ...string) string {
	if tag, ok := ctx.Value(tagKey{}).(string); ok {
		if s.Tagged == nil {
			s.Tagged = map[string][]Call{}
		}
		s.Tagged[tag] = append(s.Tagged[tag], Call{op, args})
	}
	return s.enter(op, args...)
}

// enter logs the call and returns the fault kind to apply ("" = none)
func (s *Storage) enter(op string, args ...string) string {
	s.Calls = append(s.Calls, Call{op, args})
	s.counts[op]++
	for _, f := range s.Faults {
		if f.Op == op && f.Nth == s.counts[op] {
			s.Fired = append(s.Fired, f)
			return f.Kind
		}
	}
	return ""
}

func faultyKey(k *key.CertificateAndKey, kind string) (*key.CertificateAndKey, error) {
	switch kind {
	case "":
		return k, nil
	case "error", "error:canceled", "error:deadline", "error:eof", "error:notfound":
		return nil, FaultErr(kind)
	case "nilrecord":
		return nil, nil
	case "nokey":
		return &key.CertificateAndKey{Certificate: k.Certificate}, nil
	case "nocert":
		return &key.CertificateAndKey{Key: k.Key}, nil
	case "emptycert":
		return &key.CertificateAndKey{Certificate: []byte{}, Key: k.Key}, nil
	case "emptykey":
		return &key.CertificateAndKey{Certificate: k.Certificate, Key: &rsa.PrivateKey{}}, nil
	}
	return nil, fmt.Errorf("unknown fault kind %s", kind)
}

func (s *Storage) GetCA(ctx context.Context) (*key.CertificateAndKey, error) {
	s.mu.Lock()
	defer s.mu.Unlock()
	return faultyKey(s.RespKey, s.enterCtx(ctx, "GetCA"))
}
func (s *Storage) GetMetadataSigningKey(ctx context.Context) (*key.CertificateAndKey, error) {
	s.mu.Lock()
	defer s.mu.Unlock()
	return faultyKey(s.MetaKey, s.enterCtx(ctx, "GetMetadataSigningKey"))
}
func (s *Storage) GetResponseSigningKey(ctx context.Context) (*key.CertificateAndKey, error) {
	s.mu.Lock()
	defer s.mu.Unlock()
	return faultyKey(s.RespKey, s.enterCtx(ctx, "GetResponseSigningKey"))
}
func (s *Storage) GetEntityByID(ctx context.Context, entityID string) (*serviceprovider.ServiceProvider, error) {
	s.mu.Lock()
	defer s.mu.Unlock()
	if k := s.enterCtx(ctx, "GetEntityByID", entityID); k != "" {
		return nil, FaultErr(k)
	}
	sp, ok := s.SPs[entityID]
	if !ok {
		if s.ErrEcho {
			return nil, fmt.Errorf("unknown service provider: %s", entityID)
		}
		return nil, fmt.Errorf("unknown service provider")
	}
	return sp, nil
}
func (s *Storage) GetEntityIDByAppID(ctx context.Context, appID string) (string, error) {
	s.mu.Lock()
	defer s.mu.Unlock()
	if k := s.enterCtx(ctx, "GetEntityIDByAppID", appID); k != "" {
		return "", FaultErr(k)
	}
	e, ok := s.Apps[appID]
	if !ok {
		return "", fmt.Errorf("unknown application")
	}
	return e, nil
}
func (s *Storage) CreateAuthRequest(ctx context.Context, req *samlp.AuthnRequestType, acsUrl, protocolBinding, relayState, applicationID string) (models.AuthRequestInt, error) {
	s.mu.Lock()
	defer s.mu.Unlock()
	iss := "<nil>"
	if req.Issuer != nil {
		iss = req.Issuer.Text
	}
	if k := s.enterCtx(ctx, "CreateAuthRequest", acsUrl, protocolBinding, relayState, applicationID, req.Id, iss); k != "" {
		return nil, FaultErr(k)
	}
	s.nextID++
	a := &AuthReq{ID: fmt.Sprintf("%s-%d", s.IDPrefix, s.nextID), AppID: applicationID, RelayState: relayState, ACS: acsUrl, Binding: protocolBinding,
		AuthReqID: req.Id, Issuer: iss, Destination: req.Destination}
	s.Requests[a.ID] = a
	return a, nil
}
func (s *Storage) AuthRequestByID(ctx context.Context, id string) (models.AuthRequestInt, error) {
	s.mu.Lock()
	defer s.mu.Unlock()
	if k := s.enterCtx(ctx, "AuthRequestByID", id); k != "" {
		return nil, FaultErr(k)
	}
	a, ok := s.Requests[id]
	if !ok {
		return nil, fmt.Errorf("unknown request")
	}
	cp := *a
	return &cp, nil
}
func setUser(u *User, info models.AttributeSetter) {
	info.SetEmail(u.Email)
	info.SetFullName(u.FullName)
	info.SetGivenName(u.GivenName)
	info.SetSurname(u.Surname)
	info.SetUsername(u.Username)
	info.SetUserID(u.UserID)
	for _, c := range u.Custom {
		info.SetCustomAttribute(c.Name, c.Friendly, c.Format, append([]string(nil), c.Values...)) // a copy: the library must not be able to alter the record the oracle compares with
	}
}
func (s *Storage) SetUserinfoWithUserID(ctx context.Context, applicationID string, userinfo models.AttributeSetter, userID string, attributes []int) error {
	s.mu.Lock()
	defer s.mu.Unlock()
	if k := s.enterCtx(ctx, "SetUserinfoWithUserID", applicationID, userID); k != "" {
		return FaultErr(k)
	}
	u, ok := s.Users[userID]
	if !ok {
		return fmt.Errorf("unknown user")
	}
	setUser(u, userinfo)
	return nil
}
func (s *Storage) SetUserinfoWithLoginName(ctx context.Context, userinfo models.AttributeSetter, loginName string, attributes []int) error {
	s.mu.Lock()
	defer s.mu.Unlock()
	if k := s.enterCtx(ctx, "SetUserinfoWithLoginName", loginName); k != "" {
		return FaultErr(k)
	}
	u, ok := s.Logins[loginName]
	if !ok {
		return fmt.Errorf("unknown user")
	}
	setUser(u, userinfo)
	return nil
}
func (s *Storage) Health(ctx context.Context) error {
	s.mu.Lock()
	defer s.mu.Unlock()
	if k := s.enterCtx(ctx, "Health"); k != "" {
		return FaultErr(k)
	}
	return nil
}

// PeekNextID is the identifier the next successful CreateAuthRequest will return
func (s *Storage) PeekNextID() string {
	s.mu.Lock()
	defer s.mu.Unlock()
	return fmt.Sprintf("%s-%d", s.IDPrefix, s.nextID+1)
}

// ClearSPs forgets all registered service providers
func (s *Storage) ClearSPs() {
	s.mu.Lock()
	defer s.mu.Unlock()
	s.SPs = map[string]*serviceprovider.ServiceProvider{}
	s.Apps = map[string]string{}
	s.SPDocs = map[*serviceprovider.ServiceProvider][]byte{}
}

// Log returns a copy of the call log
func (s *Storage) Log() []Call {
	s.mu.Lock()
	defer s.mu.Unlock()
	return append([]Call(nil), s.Calls...)
}
func (s *Storage) CountOp(op string) int {
	n := 0
	for _, c := range s.Log() {
		if c.Op == op {
			n++
		}
	}
	return n
}

// ErrorKinds are the shapes of error a storage may return: an opaque error, wrapped context errors (a backend call timing out
// or being cancelled while the request is alive), io.EOF, a sentinel "not found" value
var ErrorKinds = []string{"error", "error:canceled", "error:deadline", "error:eof", "error:notfound"}

var ErrNotFound = errors.New("not found")

// FaultErr is the error returned for an injected fault of the given kind
func FaultErr(kind string) error {
	switch kind {
	case "error:canceled":
		return fmt.Errorf("storage backend: %w", context.Canceled)
	case "error:deadline":
		return fmt.Errorf("storage backend: %w", context.DeadlineExceeded)
	case "error:eof":
		return io.EOF
	case "error:notfound":
		return ErrNotFound
	}
	return fmt.Errorf("injected fault")
}
