package idp

import (
	"bytes"
	"compress/flate"
	"encoding/base64"
	"fmt"
	"io"
	"net/http"
	"net/http/httptest"
	"net/url"
	"runtime/debug"
	"strings"

	"github.com/zitadel/saml/pkg/provider"
	"github.com/zitadel/saml/pkg/provider/key"

	"verif/harness/internal/xhtml"
)

type EnvConfig struct {
	Issuer        string   // static issuer; "" with HostPath != nil => host-derived
	HostPath      *string  // IssuerFromHost / IssuerFromForwardedOrHost path
	Forwarded     bool     // use IssuerFromForwardedOrHost
	CustomHeaders []string // WithIssuerFromCustomHeaders
	Insecure      bool
	Conf          *provider.Config
	TimeFormat    string
}

type Env struct {
	Provider *provider.Provider
	Storage  *Storage
	Handler  http.Handler
	Cfg      EnvConfig
}

func DefaultConf() *provider.Config {
	return &provider.Config{IDPConfig: &provider.IdentityProviderConfig{SignatureAlgorithm: RSASHA256}}
}

func NewEnv(c EnvConfig) (*Env, error) {
	st := NewStorage()
	idpK, metaK, _, _ := Keys()
	st.RespKey = &key.CertificateAndKey{Certificate: idpK.CertDER, Key: idpK.Key}
	st.MetaKey = &key.CertificateAndKey{Certificate: metaK.CertDER, Key: metaK.Key}
	return NewEnvWithStorage(c, st)
}

func NewEnvWithStorage(c EnvConfig, st *Storage) (*Env, error) {
	if c.Conf == nil {
		c.Conf = DefaultConf()
	}
	var issuer func(bool) (provider.IssuerFromRequest, error)
	switch {
	case c.HostPath != nil && c.Forwarded && len(c.CustomHeaders) > 0:
		issuer = provider.IssuerFromForwardedOrHost(*c.HostPath, provider.WithIssuerFromCustomHeaders(c.CustomHeaders...))
	case c.HostPath != nil && c.Forwarded:
		issuer = provider.IssuerFromForwardedOrHost(*c.HostPath)
	case c.HostPath != nil:
		issuer = provider.IssuerFromHost(*c.HostPath)
	default:
		issuer = provider.StaticIssuer(c.Issuer)
	}
	var opts []provider.Option
	if c.Insecure {
		opts = append(opts, provider.WithAllowInsecure())
	}
	if c.TimeFormat != "" {
		opts = append(opts, provider.WithCustomTimeFormat(c.TimeFormat))
	}
	p, err := provider.NewProvider(st, issuer, c.Conf, opts...)
	if err != nil {
		return nil, err
	}
	return &Env{Provider: p, Storage: st, Handler: p.HttpHandler(), Cfg: c}, nil
}

// Reply is the observable outcome of one request.
type Reply struct {
	Code     int         `json:"code"`
	Panic    string      `json:"panic,omitempty"`
	Kind     string      `json:"kind"`
	Location string      `json:"location,omitempty"`
	Body     []byte      `json:"-"`
	Header   http.Header `json:"-"`
	// POST form
	FormCount               int      `json:"form_count,omitempty"`
	FormAction, FormRelay   string   `json:",omitempty"`
	FormMsg                 string   `json:"-"`
	InputNames              []string `json:",omitempty"`
	ScriptTags, OtherInputs int      `json:",omitempty"`
	// redirect
	RawQuery string            `json:",omitempty"`
	QueryKV  [][2]string       `json:"-"`
	Q        map[string]string `json:"-"`
	// decoded SAML message
	Msg    []byte `json:"-"`
	Doc    *Node  `json:"-"`
	DocErr string `json:",omitempty"`
	Status string `json:"status,omitempty"`
}

// DoTagged serves one request whose storage calls are logged under the tag (see Storage.LogFor)
func (e *Env) DoTagged(r *http.Request, tag string) *Reply {
	return e.Do(r.WithContext(WithTag(r.Context(), tag)))
}

// Do serves one request, recovering panics.
func (e *Env) Do(r *http.Request) (rep *Reply) {
	rec := httptest.NewRecorder()
	rep = &Reply{}
	func() {
		defer func() {
			if p := recover(); p != nil {
				rep.Panic = fmt.Sprintf("%v\n%s", p, firstFrames(string(debug.Stack())))
			}
		}()
		e.Handler.ServeHTTP(rec, r)
	}()
	rep.Code = rec.Code
	rep.Header = rec.Header()
	rep.Body = rec.Body.Bytes()
	rep.Location = rec.Header().Get("Location")
	classify(rep)
	return rep
}

func firstFrames(s string) string {
	lines := strings.Split(s, "\n")
	var keep []string
	for _, l := range lines {
		if strings.Contains(l, "/repo/") {
			keep = append(keep, strings.TrimSpace(l))
			if len(keep) >= 3 {
				break
			}
		}
	}
	return strings.Join(keep, " | ")
}

func Inflate(b []byte) ([]byte, error) {
	r := flate.NewReader(bytes.NewReader(b))
	defer r.Close()
	return io.ReadAll(io.LimitReader(r, 64<<20))
}

func classify(rep *Reply) {
	body := rep.Body
	switch {
	case rep.Panic != "":
		rep.Kind = "panic"
	case rep.Code == http.StatusSeeOther && strings.HasPrefix(rep.Location, LoginBase):
		rep.Kind = "login-redirect"
	case rep.Code == http.StatusFound && rep.Location != "":
		rep.Kind = "saml-redirect"
		if i := strings.IndexByte(rep.Location, '?'); i >= 0 {
			rep.RawQuery = rep.Location[i+1:]
		}
		parseRedirect(rep)
	case rep.Code >= 400:
		rep.Kind = "http-error"
	case len(bytes.TrimSpace(body)) == 0:
		rep.Kind = "empty"
	case bytes.Contains(body, []byte("<form")) || bytes.Contains(body, []byte("<html")):
		rep.Kind = "saml-post"
		parseForm(rep)
	case bytes.HasPrefix(bytes.TrimSpace(body), []byte("<?xml")) || bytes.HasPrefix(bytes.TrimSpace(body), []byte("<")):
		rep.Kind = "saml-body"
		rep.Msg = body
	case bytes.HasPrefix(bytes.TrimSpace(body), []byte("{")):
		rep.Kind = "json"
	default:
		rep.Kind = "other"
	}
	if rep.Msg != nil {
		doc, err := ParseXML(rep.Msg)
		if err != nil {
			rep.DocErr = err.Error()
		} else {
			rep.Doc = doc
			root := doc
			if doc.Local == "Envelope" {
				root = doc.Path("Body", "Response")
			}
			if sc := root.Path("Status", "StatusCode"); sc != nil {
				rep.Status, _ = sc.Attr("Value")
			}
		}
	}
}

// parseRedirect splits the raw query without net/url's ParseQuery leniency: pairs in order, single unescape.
func parseRedirect(rep *Reply) {
	rep.Q = map[string]string{}
	loc := rep.Location
	i := strings.IndexByte(loc, '?')
	if i < 0 {
		return
	}
	q := loc[i+1:]
	if j := strings.IndexByte(q, '#'); j >= 0 {
		q = q[:j]
	}
	for _, part := range strings.Split(q, "&") {
		k, v, _ := strings.Cut(part, "=")
		uk, err1 := url.QueryUnescape(k)
		uv, err2 := url.QueryUnescape(v)
		if err1 != nil || err2 != nil {
			continue
		}
		rep.QueryKV = append(rep.QueryKV, [2]string{uk, uv})
		if _, dup := rep.Q[uk]; !dup {
			rep.Q[uk] = uv
		}
	}
	if m, ok := rep.Q["SAMLResponse"]; ok {
		raw, err := base64.StdEncoding.DecodeString(m)
		if err == nil {
			if inf, err := Inflate(raw); err == nil {
				rep.Msg = inf
			} else {
				rep.DocErr = "inflate: " + err.Error()
			}
		} else {
			rep.DocErr = "base64: " + err.Error()
		}
	}
}

// parseForm tokenises the auto-submit page with the (vendored) x/net/html tokenizer.
func parseForm(rep *Reply) {
	z := xhtml.NewTokenizer(bytes.NewReader(rep.Body))
	for {
		tt := z.Next()
		if tt == xhtml.ErrorToken {
			break
		}
		if tt != xhtml.StartTagToken && tt != xhtml.SelfClosingTagToken {
			continue
		}
		tok := z.Token()
		attrs := map[string]string{}
		for _, a := range tok.Attr {
			if _, dup := attrs[a.Key]; !dup {
				attrs[a.Key] = a.Val
			}
		}
		switch tok.Data {
		case "form":
			rep.FormCount++
			if rep.FormCount == 1 {
				rep.FormAction = attrs["action"]
			}
		case "script":
			rep.ScriptTags++
		case "input":
			switch attrs["name"] {
			case "RelayState":
				rep.FormRelay = attrs["value"]
				rep.InputNames = append(rep.InputNames, "RelayState")
			case "SAMLResponse":
				rep.FormMsg = attrs["value"]
				rep.InputNames = append(rep.InputNames, "SAMLResponse")
			default:
				if attrs["type"] != "submit" {
					rep.OtherInputs++
				}
			}
		}
	}
	if rep.FormMsg != "" {
		raw, err := base64.StdEncoding.DecodeString(rep.FormMsg)
		if err == nil {
			rep.Msg = raw
		} else {
			rep.DocErr = "base64: " + err.Error()
		}
	}
}
