package idp

import (
	"crypto/ecdsa"
	"crypto/ed25519"
	"crypto/elliptic"
	"crypto/rand"
	"crypto/rsa"
	"crypto/x509"
	"crypto/x509/pkix"
	"encoding/base64"
	"math/big"
	"strings"
	"sync"
	"time"
)

type KeyPair struct {
	Key     *rsa.PrivateKey
	CertDER []byte
	Cert    *x509.Certificate
}

func (k *KeyPair) CertB64() string { return base64.StdEncoding.EncodeToString(k.CertDER) }

func NewKeyPair(cn string) *KeyPair {
	k, err := rsa.GenerateKey(rand.Reader, 2048)
	if err != nil {
		panic(err)
	}
	tpl := &x509.Certificate{SerialNumber: big.NewInt(time.Now().UnixNano()), Subject: pkix.Name{CommonName: cn},
		NotBefore: time.Now().Add(-time.Hour), NotAfter: time.Now().Add(24 * 365 * time.Hour), KeyUsage: x509.KeyUsageDigitalSignature}
	der, err := x509.CreateCertificate(rand.Reader, tpl, tpl, &k.PublicKey, k)
	if err != nil {
		panic(err)
	}
	c, _ := x509.ParseCertificate(der)
	return &KeyPair{k, der, c}
}

// ECCertB64 returns a self-signed ECDSA certificate (for key-type mismatch cases)
func ECCertB64() string {
	k, _ := ecdsa.GenerateKey(elliptic.P256(), rand.Reader)
	tpl := &x509.Certificate{SerialNumber: big.NewInt(7), Subject: pkix.Name{CommonName: "ec"}, NotBefore: time.Now().Add(-time.Hour), NotAfter: time.Now().Add(time.Hour)}
	der, _ := x509.CreateCertificate(rand.Reader, tpl, tpl, &k.PublicKey, k)
	return base64.StdEncoding.EncodeToString(der)
}

// Ed25519CertB64 returns a self-signed Ed25519 certificate
func Ed25519CertB64() string {
	pub, priv, _ := ed25519.GenerateKey(rand.Reader)
	tpl := &x509.Certificate{SerialNumber: big.NewInt(8), Subject: pkix.Name{CommonName: "ed"}, NotBefore: time.Now().Add(-time.Hour), NotAfter: time.Now().Add(time.Hour)}
	der, _ := x509.CreateCertificate(rand.Reader, tpl, tpl, pub, priv)
	return base64.StdEncoding.EncodeToString(der)
}

var (
	keyOnce                        sync.Once
	idpKey, metaKey, spKey, spKey2 *KeyPair
)

func Keys() (idp, meta, sp, sp2 *KeyPair) {
	keyOnce.Do(func() {
		idpKey, metaKey, spKey, spKey2 = NewKeyPair("idp"), NewKeyPair("idp-metadata"), NewKeyPair("sp"), NewKeyPair("sp-other")
	})
	return idpKey, metaKey, spKey, spKey2
}

// CertText is the abstraction of a certificate text the models compare: the base64 text without white space
// (checkCertificate compares modulo white space since fix 0ef8723)
func CertText(s string) string { return strings.Join(strings.Fields(s), "") }
