//go:build verif

package c17

import (
	"bytes"

	"github.com/zitadel/saml/pkg/provider"

	"verif/harness/internal/idp"
)

const haveHooks = true

func renderForm(env *idp.Env, buf *bytes.Buffer, logout bool, relay, msg, url string) error {
	if logout {
		return provider.VerifRenderLogoutForm(env.Provider, buf, relay, msg, url)
	}
	return provider.VerifRenderPostForm(env.Provider, buf, relay, msg, url)
}
