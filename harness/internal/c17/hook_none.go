//go:build !verif

package c17

import (
	"bytes"
	"fmt"

	"verif/harness/internal/idp"
)

const haveHooks = false

func renderForm(env *idp.Env, buf *bytes.Buffer, logout bool, relay, msg, url string) error {
	return fmt.Errorf("hooks not compiled in")
}
