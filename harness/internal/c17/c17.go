// Package c17 renders the auto-submit pages through the provider's real templates (verif hook) and through the
// callback handler, compares them byte for byte with the Coq model and tokenises them with an independent HTML tokenizer.
package c17

import (
	"bytes"
	"fmt"
	"math/rand"
	"net/http"
	"time"
	"strings"
	"unicode/utf8"

	"verif/harness/internal/coqgen"
	"verif/harness/internal/idp"
	"verif/harness/internal/sso"
	"verif/harness/internal/xhtml"
)

var hostile = []string{"", "plain", "\"><script>alert(1)</script>", "' onmouseover='x", "&quot;&#34;&amp;&lt;", "&#0;&#x0;", "a\x00b", "a\rb", "a\r\nb", "a\nb", "\t", "ü€😀", "\xff\xfe", "\xed\xa0\x80",
	"+", "%41%zz%", "</form>", "<!--", "-->", "]]>", "\\\"", "`", "javascript:alert(1)", "data:text/html,<script>1</script>", "JaVaScRiPt:alert(1)", "vbscript:x", "https://sp.example/acs?x=1&y=2#f",
	"//evil.example", "http://a b/c d", "mailto:x@y", "HTTPS://SP.example/", "sp.example:8443/acs", "a:b/c", "/relative?q=\"", "https://sp.example/‮"}

type pageInfo struct {
	forms, scripts int
	action         string
	inputs         map[string]string
	other          int
}

func tokenize(page []byte) pageInfo {
	z := xhtml.NewTokenizer(bytes.NewReader(page))
	pi := pageInfo{inputs: map[string]string{}}
	for {
		tt := z.Next()
		if tt == xhtml.ErrorToken {
			break
		}
		if tt != xhtml.StartTagToken && tt != xhtml.SelfClosingTagToken {
			continue
		}
		tok := z.Token()
		at := map[string]string{}
		for _, a := range tok.Attr {
			if _, dup := at[a.Key]; !dup {
				at[a.Key] = a.Val
			}
		}
		switch tok.Data {
		case "form":
			pi.forms++
			pi.action = at["action"]
		case "script", "iframe", "object", "embed", "img", "link", "meta", "base":
			pi.scripts++
		case "input":
			if at["type"] == "hidden" {
				pi.inputs[at["name"]] = at["value"]
			} else if at["type"] != "submit" {
				pi.other++
			}
		}
		for k := range at {
			if strings.HasPrefix(k, "on") && tok.Data != "body" {
				pi.scripts++
			}
		}
	}
	return pi
}

// htmlNormalise: what a conformant HTML parser does to a value before tokenising: NUL -> U+FFFD happens in the
// escaper already; CR LF / CR -> LF is input-stream preprocessing.
func htmlNewlines(s string) string {
	return strings.ReplaceAll(strings.ReplaceAll(s, "\r\n", "\n"), "\r", "\n")
}

// renderEndToEnd produces a POST-binding page through the real handlers (callback for the login page, SLO for the
// logout page); used when the verif hooks do not compile against the current tree.
func renderEndToEnd(env *idp.Env, buf *bytes.Buffer, logout bool, relay, url string) (string, error) {
	st := env.Storage
	if url == "" {
		return "", fmt.Errorf("empty URL: no form is produced")
	}
	if logout {
		st.ClearSPs()
		m := idp.SPMeta{EntityID: "https://sp.example/metadata", ACS: []idp.ACS{{Index: "0", Binding: idp.PostBinding, Location: "https://sp.example/acs"}}, SLO: []idp.SLO{{Binding: idp.PostBinding, Location: url}}}
		if _, err := st.Register("app-1", m); err != nil {
			return "", err
		}
		lr := `<samlp:LogoutRequest xmlns:samlp="urn:oasis:names:tc:SAML:2.0:protocol" xmlns:saml="urn:oasis:names:tc:SAML:2.0:assertion" ID="_lo" Version="2.0"><saml:Issuer>https://sp.example/metadata</saml:Issuer><saml:NameID>u</saml:NameID></samlp:LogoutRequest>`
		rep := env.Do(idp.ReqSpec{Method: http.MethodPost, Path: "/SLO", Body: []idp.Param{idp.Q("SAMLRequest", idp.B64([]byte(lr))), idp.Q("RelayState", relay)}}.HTTP())
		if rep.Kind != "saml-post" {
			return "", fmt.Errorf("no form (reply %s)", rep.Kind)
		}
		buf.Write(rep.Body)
		return rep.FormMsg, nil
	}
	st.Apps["app-1"] = "https://sp.example/metadata"
	st.Requests["c17"] = &idp.AuthReq{ID: "c17", AppID: "app-1", RelayState: relay, ACS: url, Binding: idp.PostBinding, AuthReqID: "_r"}
	rep := env.Do(idp.ReqSpec{Method: http.MethodGet, Path: "/login", Query: []idp.Param{idp.Q("id", "c17")}}.HTTP())
	if rep.Kind != "saml-post" {
		return "", fmt.Errorf("no form (reply %s)", rep.Kind)
	}
	buf.Write(rep.Body)
	return rep.FormMsg, nil
}

func Run(dir, tier string, seed int64) error {
	run := coqgen.NewRun(dir, "C17", tier, seed)
	run.Imports = "From Saml Require Import Base.Bytes Corr.C17Corr."
	run.CaseType = "c17case"
	run.BadFn = "c17_bad"
	run.PerShard = 120
	r := rand.New(rand.NewSource(seed))
	env, err := idp.NewEnv(idp.EnvConfig{Issuer: "https://idp.example/saml"})
	if err != nil {
		return err
	}
	type triple struct {
		logout          bool
		url, relay, msg string
		why             string
	}
	var cases []triple
	// every byte value in each of the three positions, both templates
	for bv := 0; bv < 256; bv++ {
		s := "a" + string([]byte{byte(bv)}) + "z"
		cases = append(cases, triple{bv%2 == 1, "https://sp.example/" + s, "rs", "bXNn", "byte-in-url"}, triple{bv%2 == 0, "https://sp.example/acs", s, "bXNn", "byte-in-relay"},
			triple{bv%3 == 0, "https://sp.example/acs", "rs", s, "byte-in-msg"})
	}
	for _, h := range hostile {
		cases = append(cases, triple{false, h, "rs", "bXNn", "hostile-url"}, triple{true, h, "rs", "bXNn", "hostile-url"}, triple{false, "https://sp.example/acs", h, "bXNn", "hostile-relay"},
			triple{true, "https://sp.example/slo", h, h, "hostile-relay-msg"})
	}
	nRand := 150
	lens := []int{1024, 65536}
	if tier == "thorough" {
		nRand = 3000
	}
	for i := 0; i < nRand; i++ {
		rs := func() string {
			n := r.Intn(12)
			b := make([]byte, n)
			for j := range b {
				const alphabet = "\"'<>&+\x00\r\n %;#:/?=abc\xc3\xa9\xff"
				b[j] = alphabet[r.Intn(len(alphabet))]
			}
			return string(b)
		}
		cases = append(cases, triple{r.Intn(2) == 0, rs(), rs(), rs(), "random"})
	}
	for _, n := range lens {
		cases = append(cases, triple{false, "https://sp.example/acs", strings.Repeat("<\"&x", n/4), "bXNn", fmt.Sprintf("long-relay-%d", n)})
	}
	// the constant text of each template, found by rendering three markers; used only to transport pages compactly
	segs := map[bool][]string{}
	for _, lo := range []bool{false, true} {
		var buf bytes.Buffer
		if !haveHooks {
			continue
		}
		renderForm(env, &buf, lo, "MARKERTWO", "MARKERTHREE", "MARKERONE")
		p := buf.String()
		i1, i2, i3 := strings.Index(p, "MARKERONE"), strings.Index(p, "MARKERTWO"), strings.Index(p, "MARKERTHREE")
		if i1 > 0 && i2 > i1 && i3 > i2 {
			segs[lo] = []string{p[:i1], p[i1+9 : i2], p[i2+9 : i3], p[i3+11:]}
		}
	}
	pageTerm := func(lo bool, page string) string {
		sg := segs[lo]
		if len(sg) == 4 && strings.HasPrefix(page, sg[0]) && strings.HasSuffix(page, sg[3]) {
			rest := page[len(sg[0]) : len(page)-len(sg[3])]
			if a := strings.Index(rest, sg[1]); a >= 0 {
				if b := strings.Index(rest[a+len(sg[1]):], sg[2]); b >= 0 {
					v1, v2, v3 := rest[:a], rest[a+len(sg[1]):a+len(sg[1])+b], rest[a+len(sg[1])+b+len(sg[2]):]
					return "(bconcat " + coqgen.List([]string{coqgen.Bytes(sg[0]), coqgen.Bytes(v1), coqgen.Bytes(sg[1]), coqgen.Bytes(v2), coqgen.Bytes(sg[2]), coqgen.Bytes(v3), coqgen.Bytes(sg[3])}) + ")"
				}
			}
		}
		return coqgen.Bytes(page)
	}
	for id, c := range cases {
		var buf bytes.Buffer
		var err error
		if haveHooks {
			err = renderForm(env, &buf, c.logout, c.relay, c.msg, c.url)
		} else {
			// no hooks: drive the real handlers; the message is whatever they produce
			var msg string
			msg, err = renderEndToEnd(env, &buf, c.logout, c.relay, c.url)
			c.msg = msg
		}
		if err != nil {
			run.Note("template execution failed for case %d: %v", id, err)
			continue
		}
		page := buf.Bytes()
		run.Res.Evaluations++
		run.Count("kind=" + strings.SplitN(c.why, "-1", 2)[0])
		run.Distinct(fmt.Sprintf("%s/%v/%d", c.why, c.logout, len(page)%97))
		desc := map[string]interface{}{"logout": c.logout, "url": c.url, "relay": c.relay, "msg": c.msg, "why": c.why}
		if len(page) < 20000 {
			run.AddCase(id, fmt.Sprintf("(%s, %s, %s, %s, %s, %s)", coqgen.Z(int64(id)), coqgen.Bool(c.logout), coqgen.Bytes(c.url), coqgen.Bytes(c.relay), coqgen.Bytes(c.msg), pageTerm(c.logout, string(page))), desc)
		}
		if id%97 == 11 {
			run.Sample(desc)
		}
		// ---- independent oracle: tokenise the page
		pi := tokenize(page)
		fail := func(class, what string) { run.Fail(coqgen.Failure{ID: id, Class: class, What: what, Input: desc}) }
		if pi.forms != 1 || pi.scripts != 0 || pi.other != 0 || len(pi.inputs) != 2 {
			fail("page-structure-altered", fmt.Sprintf("%d forms, %d active elements/handlers, %d extra inputs, %d hidden fields", pi.forms, pi.scripts, pi.other, len(pi.inputs)))
			continue
		}
		low := strings.ToLower(strings.TrimSpace(pi.action))
		if strings.HasPrefix(low, "javascript:") || strings.HasPrefix(low, "data:") || strings.HasPrefix(low, "vbscript:") {
			fail("script-url-as-action", pi.action)
		}
		wantRelay := strings.ReplaceAll(c.relay, "\x00", "�")
		wantMsg := strings.ReplaceAll(c.msg, "\x00", "�")
		if pi.inputs["RelayState"] != wantRelay || pi.inputs["SAMLResponse"] != wantMsg {
			if pi.inputs["RelayState"] == htmlNewlines(wantRelay) && pi.inputs["SAMLResponse"] == htmlNewlines(wantMsg) {
				fail("value-cr-not-preserved", "a value containing CR comes back with LF from a conformant HTML parser (raw CR is emitted)")
			} else {
				fail("hidden-field-value-altered", fmt.Sprintf("RelayState %q want %q; SAMLResponse %q want %q", pi.inputs["RelayState"], wantRelay, pi.inputs["SAMLResponse"], wantMsg))
			}
		}
	}
	// end-to-end: the pages the two endpoints send must be the template rendering of exactly the values they were given
	// (stored RelayState / ACS URL for the login callback; the request's RelayState and the registered SLO location for /SLO)
	e2e := 0
	for _, lo := range []bool{false, true} {
		for i, h := range hostile {
			for pos, pair := range [][2]string{{h, "https://sp.example/acs"}, {"rs", h}} {
				if !haveHooks {
					break
				}
				relay, url := pair[0], pair[1]
				if lo && pos == 1 && (!utf8.ValidString(url) || strings.ContainsAny(url, "\x00\r\n\t\x0b\x0c\x1b") || strings.TrimSpace(url) != url) {
					// the SLO location travels through the SP's metadata XML, which cannot carry these values unchanged
					run.Count("e2e-url-not-xml-representable")
					continue
				}
				var got bytes.Buffer
				msg, err := renderEndToEnd(env, &got, lo, relay, url)
				if err != nil {
					run.Count("e2e-no-form")
					continue
				}
				var want bytes.Buffer
				renderForm(env, &want, lo, relay, msg, url)
				run.Res.Evaluations++
				e2e++
				run.Count("e2e-compared")
				if !bytes.Equal(want.Bytes(), got.Bytes()) {
					pi := tokenize(got.Bytes())
					run.Fail(coqgen.Failure{ID: 100000 + i*4 + pos*2 + map[bool]int{false: 0, true: 1}[lo], Class: "handler-page-differs-from-template",
						What:  fmt.Sprintf("the page sent by the endpoint differs from the template rendering of the same three values (RelayState parsed back as %q, action %q)", pi.inputs["RelayState"], pi.action),
						Input: map[string]interface{}{"logout": lo, "relay": relay, "url": url}})
				}
			}
		}
	}
	// end-to-end through /SSO: the RelayState of the request itself, over both transports, is reflected in the error page
	// (a request the IdP refuses but can answer) and handed to the storage (a request the IdP accepts) exactly as it was sent
	{
		env.Storage.ClearSPs()
		spm := sso.BaseSP(nil, true)
		if _, err := env.Storage.Register("app-1", spm); err != nil {
			return err
		}
		now := time.Now().UTC().Format("2006-01-02T15:04:05Z")
		mkReq := func(dest string) string {
			return `<samlp:AuthnRequest xmlns:samlp="urn:oasis:names:tc:SAML:2.0:protocol" xmlns:saml="urn:oasis:names:tc:SAML:2.0:assertion" ID="_c17" Version="2.0" IssueInstant="` + now + `" Destination="` + dest + `" ProtocolBinding="` + idp.PostBinding + `"><saml:Issuer>` + sso.SPEntity + `</saml:Issuer></samlp:AuthnRequest>`
		}
		relays := append([]string{}, hostile...)
		relays = append(relays, "before\x00after", "\x00", "\x00\x00tail", "a b+c%20d", "k=v&SAMLRequest=x", "x;y", " lead", "trail ", "tab\tin", strings.Repeat("r", 80))
		for i, h := range relays {
			for tr, transport := range []string{"post", "redirect"} {
				for ok, instant := range []string{"https://elsewhere.example/SSO", sso.SSOLoc} {
					var spec idp.ReqSpec
					if transport == "post" {
						spec = idp.ReqSpec{Method: http.MethodPost, Path: "/SSO", Body: []idp.Param{idp.Q("SAMLRequest", idp.B64([]byte(mkReq(instant)))), idp.Q("RelayState", h)}}
					} else {
						spec = idp.ReqSpec{Method: http.MethodGet, Path: "/SSO", Query: []idp.Param{idp.Q("SAMLRequest", idp.DeflateB64([]byte(mkReq(instant)))), idp.Q("RelayState", h)}}
					}
					before := len(env.Storage.Requests)
					rep := env.Do(spec.HTTP())
					fid := 200000 + i*8 + tr*2 + ok
					in := map[string]interface{}{"relay": h, "transport": transport, "request_valid": ok == 1}
					run.Res.Evaluations++
					switch rep.Kind {
					case "saml-post":
						run.Count("sso-e2e-error-page")
						pi := tokenize(rep.Body)
						want := strings.ReplaceAll(h, "\x00", "\uFFFD")
						if got := pi.inputs["RelayState"]; got != want && got != htmlNewlines(want) {
							run.Fail(coqgen.Failure{ID: fid, Class: "request-relaystate-not-reflected-exactly", What: fmt.Sprintf("the page /SSO sends carries RelayState %q, the request had %q", got, h), Input: in})
						}
					case "login-redirect":
						run.Count("sso-e2e-accepted")
						if len(env.Storage.Requests) != before+1 {
							break
						}
						for _, a := range env.Storage.Requests {
							if a.AuthReqID == "_c17" {
								if a.RelayState != h {
									run.Fail(coqgen.Failure{ID: fid, Class: "request-relaystate-not-stored-exactly", What: fmt.Sprintf("the storage was handed RelayState %q, the request had %q", a.RelayState, h), Input: in})
								}
								delete(env.Storage.Requests, a.ID)
							}
						}
					default:
						run.Count("sso-e2e-other:" + rep.Kind)
					}
				}
			}
		}
	}
	run.Res.Rule = "both templates rendered through the provider's own template objects (verif hook) for every byte value in each of the three positions, 35 hostile strings (quotes, tags, entity look-alikes, NUL, CR/LF, invalid UTF-8, script/data URLs, scheme-less and mixed-case URLs) in every position, random strings over a metacharacter alphabet, and values up to 64 KiB; each page is compared byte for byte with the Coq model (pages < 20 kB) and tokenised with the vendored x/net/html tokenizer (one form, two hidden fields with exactly the values, no active element, no script URL); every hostile string is additionally sent through the real endpoints (login callback with it as stored RelayState / ACS URL, /SLO with it as RelayState / registered SLO location) and the page sent is compared byte for byte with the template rendering of the same values; every hostile RelayState (plus NUL-containing, separator-containing and 80-byte ones) is sent to /SSO over both transports with a refused and an accepted request, and the error page / the value handed to the storage must carry it exactly. distinct = (input class, template, page length class)."
	return run.Finish()
}
