// Package c09 drives every routed endpoint and the SP-registration API with structurally edited, mismatched and
// mutated inputs and reports any panic (property C09).  The SSO requests also run through the Coq model (sso_case).
package c09

import (
	"encoding/base64"
	"fmt"
	"math/rand"
	"net/http"
	"runtime/debug"
	"sort"
	"strings"
	"time"

	"github.com/zitadel/saml/pkg/provider"
	"github.com/zitadel/saml/pkg/provider/serviceprovider"

	"verif/harness/internal/coqgen"
	"verif/harness/internal/idp"
	"verif/harness/internal/sso"
)

// ---------- structural edits over a generic XML tree ----------

type mark struct {
	elem int    // preorder index of the element
	attr int    // -1: the element itself
	kind string // delete | duplicate | empty
}

func (m mark) String() string {
	if m.attr == -2 {
		return fmt.Sprintf("%s-text#%d", m.kind, m.elem)
	}
	if m.attr < 0 {
		return fmt.Sprintf("%s-elem#%d", m.kind, m.elem)
	}
	return fmt.Sprintf("%s-attr#%d.%d", m.kind, m.elem, m.attr)
}

func isNSDecl(space, local string) bool { return space == "xmlns" || (space == "" && local == "xmlns") }

// singles lists every single structural edit of the document.
func singles(root *idp.Node) (out []mark, names map[int]string) {
	names = map[int]string{}
	i := 0
	var walk func(n *idp.Node, isRoot bool)
	walk = func(n *idp.Node, isRoot bool) {
		me := i
		names[me] = n.Local
		i++
		if !isRoot {
			out = append(out, mark{me, -1, "delete"}, mark{me, -1, "duplicate"})
		}
		out = append(out, mark{me, -1, "empty"})
		for j, a := range n.Attrs {
			if isNSDecl(a.Name.Space, a.Name.Local) {
				continue
			}
			out = append(out, mark{me, j, "delete"}, mark{me, j, "empty"})
			for v := range hostileValues {
				out = append(out, mark{me, j, fmt.Sprintf("set:%d", v)})
			}
		}
		if len(n.Children) == 0 {
			for v := range hostileValues {
				out = append(out, mark{me, -2, fmt.Sprintf("set:%d", v)}) // -2: the element's text
			}
		}
		for _, c := range n.Children {
			walk(c, false)
		}
	}
	walk(root, true)
	return out, names
}

type serializer struct {
	sb     strings.Builder
	prefix map[string]string
	marks  map[[2]int]string
	i      int
}

func (s *serializer) qn(space, local string) string {
	if space == "" {
		return local
	}
	if space == "xml" || space == "http://www.w3.org/XML/1998/namespace" {
		return "xml:" + local
	}
	return s.prefix[space] + ":" + local
}

func (s *serializer) elem(n *idp.Node, isRoot bool) {
	me := s.i
	s.i++
	k := s.marks[[2]int{me, -1}]
	if k == "delete" {
		// skip the subtree but keep the numbering
		for _, c := range n.Children {
			s.skip(c)
		}
		return
	}
	start := s.sb.Len()
	startIdx := s.i
	s.sb.WriteString("<" + s.qn(n.Space, n.Local))
	if isRoot {
		var uris []string
		for u := range s.prefix {
			uris = append(uris, u)
		}
		sort.Strings(uris)
		for _, u := range uris {
			fmt.Fprintf(&s.sb, ` xmlns:%s="%s"`, s.prefix[u], idp.EscAttr(u))
		}
	}
	for j, a := range n.Attrs {
		if isNSDecl(a.Name.Space, a.Name.Local) {
			continue
		}
		switch s.marks[[2]int{me, j}] {
		case "delete":
			continue
		case "empty":
			fmt.Fprintf(&s.sb, ` %s=""`, s.qn(a.Name.Space, a.Name.Local))
		case "":
			fmt.Fprintf(&s.sb, ` %s="%s"`, s.qn(a.Name.Space, a.Name.Local), idp.EscAttr(a.Value))
		default:
			if v, ok := hostileOf(s.marks[[2]int{me, j}]); ok {
				fmt.Fprintf(&s.sb, ` %s="%s"`, s.qn(a.Name.Space, a.Name.Local), idp.EscAttr(v))
				continue
			}
			fmt.Fprintf(&s.sb, ` %s="%s"`, s.qn(a.Name.Space, a.Name.Local), idp.EscAttr(a.Value))
		}
	}
	if k == "empty" {
		s.sb.WriteString("/>")
		for _, c := range n.Children {
			s.skip(c)
		}
	} else {
		s.sb.WriteString(">")
		if len(n.Children) == 0 {
			if v, ok := hostileOf(s.marks[[2]int{me, -2}]); ok {
				s.sb.WriteString(idp.EscAttr(v))
			} else {
				s.sb.WriteString(idp.EscAttr(n.Text))
			}
		}
		for _, c := range n.Children {
			s.elem(c, false)
		}
		s.sb.WriteString("</" + s.qn(n.Space, n.Local) + ">")
	}
	if k == "duplicate" {
		_ = startIdx
		s.sb.WriteString(s.sb.String()[start:])
	}
}

func (s *serializer) skip(n *idp.Node) {
	s.i++
	for _, c := range n.Children {
		s.skip(c)
	}
}

// Serialize writes the tree with the marks applied (namespaces re-declared on the root with generated prefixes).
func Serialize(root *idp.Node, ms ...mark) string {
	s := &serializer{prefix: map[string]string{}, marks: map[[2]int]string{}}
	root.Walk(func(n *idp.Node) {
		add := func(u string) {
			if u == "" || u == "xml" || u == "xmlns" || u == "http://www.w3.org/XML/1998/namespace" {
				return
			}
			if _, ok := s.prefix[u]; !ok {
				s.prefix[u] = fmt.Sprintf("n%d", len(s.prefix))
			}
		}
		add(n.Space)
		for _, a := range n.Attrs {
			if !isNSDecl(a.Name.Space, a.Name.Local) {
				add(a.Name.Space)
			}
		}
	})
	for _, m := range ms {
		s.marks[[2]int{m.elem, m.attr}] = m.kind
	}
	s.elem(root, true)
	return s.sb.String()
}

// hostileValues replace one attribute value or one element text at a time: things a handler may parse, index, split or
// format without expecting them (unparsable URLs, percent escapes, huge numbers, blanks, very long, format verbs)
var hostileValues = []string{"https://[::1/SSO", "https://idp.example/SSO%zz", "://host/x", " ", "%s%d%v%!", "-1", "99999999999999999999", "a b\tc", strings.Repeat("A", 5000)}

func hostileOf(kind string) (string, bool) {
	var i int
	if n, _ := fmt.Sscanf(kind, "set:%d", &i); n == 1 && i >= 0 && i < len(hostileValues) {
		return hostileValues[i], true
	}
	return "", false
}

// ---------- base documents ----------

const nsP, nsA, nsDS = "urn:oasis:names:tc:SAML:2.0:protocol", "urn:oasis:names:tc:SAML:2.0:assertion", "http://www.w3.org/2000/09/xmldsig#"

func now() string { return time.Now().UTC().Format("2006-01-02T15:04:05Z") }

func fullAuthn() string {
	return `<samlp:AuthnRequest xmlns:samlp="` + nsP + `" xmlns:saml="` + nsA + `" ID="_c09authn" Version="2.0" IssueInstant="` + now() + `" Destination="` + sso.SSOLoc +
		`" Consent="urn:oasis:names:tc:SAML:2.0:consent:unspecified" ForceAuthn="false" IsPassive="false" ProtocolBinding="` + idp.PostBinding +
		`" AssertionConsumerServiceURL="https://sp.example/acs/post" AssertionConsumerServiceIndex="0" AttributeConsumingServiceIndex="0" ProviderName="sp">` +
		`<saml:Issuer Format="urn:oasis:names:tc:SAML:2.0:nameid-format:entity">` + sso.SPEntity + `</saml:Issuer>` +
		`<samlp:Extensions><x xmlns="urn:x">y</x></samlp:Extensions>` +
		`<saml:Subject><saml:NameID Format="urn:oasis:names:tc:SAML:1.1:nameid-format:emailAddress">u@example.com</saml:NameID><saml:SubjectConfirmation Method="urn:oasis:names:tc:SAML:2.0:cm:bearer"><saml:SubjectConfirmationData Recipient="https://sp.example/acs/post"/></saml:SubjectConfirmation></saml:Subject>` +
		`<samlp:NameIDPolicy Format="urn:oasis:names:tc:SAML:1.1:nameid-format:emailAddress" AllowCreate="true" SPNameQualifier="q"/>` +
		`<saml:Conditions NotBefore="2020-01-01T00:00:00Z" NotOnOrAfter="2099-01-01T00:00:00Z"><saml:AudienceRestriction><saml:Audience>https://idp.example</saml:Audience></saml:AudienceRestriction><saml:OneTimeUse/></saml:Conditions>` +
		`<samlp:RequestedAuthnContext Comparison="exact"><saml:AuthnContextClassRef>urn:oasis:names:tc:SAML:2.0:ac:classes:PasswordProtectedTransport</saml:AuthnContextClassRef></samlp:RequestedAuthnContext>` +
		`<samlp:Scoping ProxyCount="1"><samlp:IDPList><samlp:IDPEntry ProviderID="https://idp.example" Name="n" Loc="l"/><samlp:GetComplete>https://x</samlp:GetComplete></samlp:IDPList><samlp:RequesterID>https://r</samlp:RequesterID></samlp:Scoping>` +
		`</samlp:AuthnRequest>`
}

func fullLogout() string {
	return `<samlp:LogoutRequest xmlns:samlp="` + nsP + `" xmlns:saml="` + nsA + `" ID="_c09logout" Version="2.0" IssueInstant="` + now() + `" NotOnOrAfter="2099-01-01T00:00:00Z" Destination="https://idp.example/saml/SLO" Reason="urn:oasis:names:tc:SAML:2.0:logout:user" Consent="c">` +
		`<saml:Issuer Format="urn:oasis:names:tc:SAML:2.0:nameid-format:entity">` + sso.SPEntity + `</saml:Issuer>` +
		`<samlp:Extensions><x xmlns="urn:x">y</x></samlp:Extensions>` +
		`<saml:NameID Format="urn:oasis:names:tc:SAML:1.1:nameid-format:emailAddress" SPNameQualifier="q">u@example.com</saml:NameID>` +
		`<samlp:SessionIndex>_s1</samlp:SessionIndex><samlp:SessionIndex>_s2</samlp:SessionIndex></samlp:LogoutRequest>`
}

func fullAttrQuery(withSig bool) string {
	_, _, sp, _ := idp.Keys()
	sig := ""
	if withSig {
		sig = `<ds:Signature xmlns:ds="` + nsDS + `"><ds:SignedInfo><ds:CanonicalizationMethod Algorithm="http://www.w3.org/2001/10/xml-exc-c14n#"/><ds:SignatureMethod Algorithm="` + idp.RSASHA256 +
			`"/><ds:Reference URI="#_c09aq"><ds:Transforms><ds:Transform Algorithm="http://www.w3.org/2000/09/xmldsig#enveloped-signature"/><ds:Transform Algorithm="http://www.w3.org/2001/10/xml-exc-c14n#"/></ds:Transforms><ds:DigestMethod Algorithm="http://www.w3.org/2001/04/xmlenc#sha256"/><ds:DigestValue>AAAA</ds:DigestValue></ds:Reference></ds:SignedInfo><ds:SignatureValue>Zm9yZ2Vk</ds:SignatureValue><ds:KeyInfo><ds:X509Data><ds:X509Certificate>` +
			sp.CertB64() + `</ds:X509Certificate></ds:X509Data></ds:KeyInfo></ds:Signature>`
	}
	return `<soap:Envelope xmlns:soap="http://schemas.xmlsoap.org/soap/envelope/"><soap:Header><h xmlns="urn:x">1</h></soap:Header><soap:Body>` +
		`<samlp:AttributeQuery xmlns:samlp="` + nsP + `" xmlns:saml="` + nsA + `" ID="_c09aq" Version="2.0" IssueInstant="` + now() + `" Destination="https://idp.example/saml/attribute" Consent="c">` +
		`<saml:Issuer Format="urn:oasis:names:tc:SAML:2.0:nameid-format:entity">` + sso.SPEntity + `</saml:Issuer>` + sig +
		`<samlp:Extensions><x xmlns="urn:x">y</x></samlp:Extensions>` +
		`<saml:Subject><saml:NameID Format="urn:oasis:names:tc:SAML:1.1:nameid-format:emailAddress" NameQualifier="nq" SPNameQualifier="q">alice</saml:NameID><saml:SubjectConfirmation Method="urn:oasis:names:tc:SAML:2.0:cm:bearer"/></saml:Subject>` +
		`<saml:Attribute Name="Email" NameFormat="urn:oasis:names:tc:SAML:2.0:attrname-format:basic" FriendlyName="mail"><saml:AttributeValue>x</saml:AttributeValue></saml:Attribute><saml:Attribute Name="UserID"/>` +
		`</samlp:AttributeQuery></soap:Body></soap:Envelope>`
}

func fullSPMetadata(cert string) string {
	return `<md:EntityDescriptor xmlns:md="urn:oasis:names:tc:SAML:2.0:metadata" xmlns:ds="` + nsDS + `" entityID="` + sso.SPEntity + `" validUntil="2099-01-01T00:00:00Z" cacheDuration="PT1H" ID="_md">` +
		`<md:SPSSODescriptor AuthnRequestsSigned="true" WantAssertionsSigned="true" protocolSupportEnumeration="` + nsP + `">` +
		`<md:KeyDescriptor use="signing"><ds:KeyInfo><ds:KeyName>k</ds:KeyName><ds:X509Data><ds:X509Certificate>` + cert + `</ds:X509Certificate></ds:X509Data></ds:KeyInfo></md:KeyDescriptor>` +
		`<md:KeyDescriptor use="encryption"><ds:KeyInfo><ds:X509Data><ds:X509Certificate>` + cert + `</ds:X509Certificate></ds:X509Data></ds:KeyInfo><md:EncryptionMethod Algorithm="http://www.w3.org/2001/04/xmlenc#aes128-cbc"/></md:KeyDescriptor>` +
		`<md:SingleLogoutService Binding="` + idp.PostBinding + `" Location="https://sp.example/slo" ResponseLocation="https://sp.example/slo/r"/>` +
		`<md:NameIDFormat>urn:oasis:names:tc:SAML:1.1:nameid-format:emailAddress</md:NameIDFormat>` +
		`<md:AssertionConsumerService Binding="` + idp.PostBinding + `" Location="https://sp.example/acs/post" index="0" isDefault="true"/>` +
		`<md:AssertionConsumerService Binding="` + idp.RedirBinding + `" Location="https://sp.example/acs/redirect" index="1"/>` +
		`<md:AttributeConsumingService index="0"><md:ServiceName xml:lang="en">s</md:ServiceName><md:RequestedAttribute Name="Email" isRequired="true"/></md:AttributeConsumingService>` +
		`</md:SPSSODescriptor><md:Organization><md:OrganizationName xml:lang="en">o</md:OrganizationName><md:OrganizationDisplayName xml:lang="en">o</md:OrganizationDisplayName><md:OrganizationURL xml:lang="en">https://o</md:OrganizationURL></md:Organization>` +
		`<md:ContactPerson contactType="technical"><md:EmailAddress>a@b</md:EmailAddress></md:ContactPerson></md:EntityDescriptor>`
}

// ---------- mutations ----------

func byteMutations(r *rand.Rand, doc string, n int) []string {
	var out []string
	b := []byte(doc)
	for i := 0; i < n; i++ {
		c := append([]byte(nil), b...)
		switch r.Intn(6) {
		case 0: // truncate
			c = c[:r.Intn(len(c))]
		case 1: // flip bytes
			for k := 0; k < 1+r.Intn(4); k++ {
				c[r.Intn(len(c))] ^= byte(1 << uint(r.Intn(8)))
			}
		case 2: // delete a span
			a := r.Intn(len(c))
			e := a + r.Intn(40)
			if e > len(c) {
				e = len(c)
			}
			c = append(c[:a], c[e:]...)
		case 3: // duplicate a span
			a := r.Intn(len(c))
			e := a + r.Intn(80)
			if e > len(c) {
				e = len(c)
			}
			c = append(c[:e], append(append([]byte(nil), c[a:e]...), c[e:]...)...)
		case 4: // insert metacharacters
			a := r.Intn(len(c))
			ins := []string{"<", ">", "&", "\"", "<!--", "]]>", "<![CDATA[", "<?x", "\x00", "\xff", "&#0;", "&#xD800;", "</", "/>", " xmlns=\"\"", "<a:b>"}[r.Intn(16)]
			c = append(c[:a], append([]byte(ins), c[a:]...)...)
		case 5: // swap two spans
			a, d := r.Intn(len(c)), r.Intn(len(c))
			c[a], c[d] = c[d], c[a]
		}
		out = append(out, string(c))
	}
	return out
}

// ---------- run ----------

func recovered(f func()) (p string) {
	defer func() {
		if r := recover(); r != nil {
			p = fmt.Sprintf("%v\n%s", r, firstFrames(string(debug.Stack())))
		}
	}()
	f()
	return ""
}

func firstFrames(s string) string {
	lines := strings.Split(s, "\n")
	var keep []string
	for _, l := range lines {
		if strings.Contains(l, "zitadel/saml") || strings.Contains(l, "/repo/") {
			keep = append(keep, strings.TrimSpace(l))
		}
		if len(keep) >= 8 {
			break
		}
	}
	return strings.Join(keep, " | ")
}

func Run(dir, tier string, seed int64) error {
	r := rand.New(rand.NewSource(seed))
	_, _, spKey, _ := idp.Keys()
	thorough := tier == "thorough"

	// ----- SSO: structural edits through the handler and the Coq model
	var scenarios []*sso.Scenario
	addSSO := func(stream, mut, transport, want, doc string) {
		s := sso.NewScenario(stream, len(scenarios))
		s.Mut = mut
		s.Transport = transport
		s.Want = want
		s.RawMsgDoc(doc)
		scenarios = append(scenarios, s)
	}
	authn := fullAuthn()
	signedAuthn, err := idp.SignEnveloped([]byte(authn), spKey, idp.RSASHA256, true, true)
	if err != nil {
		return err
	}
	type base struct {
		name string
		doc  string
	}
	pairsPerDoc := 60
	if thorough {
		pairsPerDoc = 1 << 30
	}
	editsOf := func(doc string) (root *idp.Node, docs []string, labels []string, err error) {
		root, err = idp.ParseXML([]byte(doc))
		if err != nil {
			return nil, nil, nil, err
		}
		ss, names := singles(root)
		label := func(m mark) string { return m.String() + "(" + names[m.elem] + ")" }
		docs = append(docs, Serialize(root))
		labels = append(labels, "reserialised")
		for _, m := range ss {
			docs = append(docs, Serialize(root, m))
			labels = append(labels, label(m))
		}
		var pairs [][2]mark
		for i := range ss {
			for j := i + 1; j < len(ss); j++ {
				if ss[i].elem == ss[j].elem && ss[i].attr == ss[j].attr {
					continue
				}
				if strings.HasPrefix(ss[i].kind, "set:") || strings.HasPrefix(ss[j].kind, "set:") {
					continue // value replacements are applied singly
				}
				pairs = append(pairs, [2]mark{ss[i], ss[j]})
			}
		}
		if len(pairs) > pairsPerDoc {
			r.Shuffle(len(pairs), func(i, j int) { pairs[i], pairs[j] = pairs[j], pairs[i] })
			pairs = pairs[:pairsPerDoc]
		}
		for _, p := range pairs {
			docs = append(docs, Serialize(root, p[0], p[1]))
			labels = append(labels, label(p[0])+"+"+label(p[1]))
		}
		return root, docs, labels, nil
	}
	for _, b := range []base{{"authn", authn}, {"authn-signed", string(signedAuthn)}} {
		_, docs, labels, err := editsOf(b.doc)
		if err != nil {
			return fmt.Errorf("base document %s: %w", b.name, err)
		}
		for i, d := range docs {
			for _, tr := range []string{"post", "redirect"} {
				want := "false"
				if i%2 == 1 {
					want = "true"
				}
				if strings.Contains(labels[i], "+") && tr == "redirect" && !thorough {
					continue
				}
				addSSO("edit-"+b.name, labels[i], tr, want, d)
			}
		}
	}
	nMut := 120
	if thorough {
		nMut = 3000
	}
	for i, d := range byteMutations(r, authn, nMut) {
		addSSO("bytes-authn", fmt.Sprintf("mut%d", i), []string{"post", "redirect"}[i%2], []string{"false", "true"}[(i/2)%2], d)
	}
	for i, d := range byteMutations(r, string(signedAuthn), nMut) {
		addSSO("bytes-authn-signed", fmt.Sprintf("mut%d", i), "post", []string{"false", "true"}[i%2], d)
	}

	oracle := func(e *sso.Exec) (string, string) {
		if e.Rep.Panic != "" {
			return "panic:sso", e.Rep.Panic
		}
		return "", ""
	}

	extra := func(run *coqgen.Run) {
		probe := func(class string, env *idp.Env, spec idp.ReqSpec, desc map[string]interface{}) {
			rep := env.Do(spec.HTTP())
			run.Res.Evaluations++
			run.Count("probe=" + class)
			run.Count(fmt.Sprintf("probe-reply=%s/%d", class, rep.Code))
			run.Distinct(fmt.Sprintf("%s/%d/%s", class, rep.Code, rep.Kind))
			if rep.Panic != "" {
				desc["request"] = spec
				run.Fail(coqgen.Failure{ID: 500000 + run.Res.Evaluations, Class: "panic:" + class, What: rep.Panic, Input: desc})
			}
		}
		env, err := idp.NewEnv(idp.EnvConfig{Issuer: sso.IssuerURL})
		if err != nil {
			run.Note("cannot build provider: %v", err)
			return
		}
		st := env.Storage
		if _, err := st.Register("app-1", sso.BaseSP(nil, true)); err != nil {
			run.Note("register: %v", err)
		}
		st.Users["alice"] = &idp.User{UserID: "alice", Email: "a@example.com"}
		st.Logins["alice"] = st.Users["alice"]

		// ----- logout
		_, ldocs, llabels, err := editsOf(fullLogout())
		if err != nil {
			run.Note("logout base: %v", err)
		}
		ldocs = append(ldocs, byteMutations(r, fullLogout(), nMut)...)
		for i, d := range ldocs {
			lab := "bytes"
			if i < len(llabels) {
				lab = llabels[i]
			}
			probe("logout-post", env, idp.ReqSpec{Method: http.MethodPost, Path: "/SLO", Body: []idp.Param{idp.Q("SAMLRequest", idp.B64([]byte(d))), idp.Q("RelayState", "rs")}}, map[string]interface{}{"edit": lab, "document": d})
			probe("logout-redirect", env, idp.ReqSpec{Method: http.MethodGet, Path: "/SLO", Query: []idp.Param{idp.Q("SAMLRequest", idp.DeflateB64([]byte(d))), idp.Q("SAMLEncoding", "urn:oasis:names:tc:SAML:2.0:bindings:URL-Encoding:DEFLATE")}}, map[string]interface{}{"edit": lab, "document": d})
		}
		// ----- attribute query (with and without a signature element), two SP key situations
		for _, withSig := range []bool{false, true} {
			_, adocs, alabels, err := editsOf(fullAttrQuery(withSig))
			if err != nil {
				run.Note("attribute query base: %v", err)
				continue
			}
			adocs = append(adocs, byteMutations(r, fullAttrQuery(withSig), nMut)...)
			for i, d := range adocs {
				lab := "bytes"
				if i < len(alabels) {
					lab = alabels[i]
				}
				body := d
				probe(fmt.Sprintf("attrquery-sig=%v", withSig), env, idp.ReqSpec{Method: http.MethodPost, Path: "/attribute", RawBody: &body, Header: map[string][]string{"Content-Type": {"text/xml"}}}, map[string]interface{}{"edit": lab, "document": d})
			}
		}
		// the same attribute queries against an SP without certificates and one with an EC certificate
		for _, certs := range [][]idp.CertEntry{nil, {{Use: "signing", Text: spKey.CertB64()}}, {{Use: "signing", Text: idp.ECCertB64()}}, {{Use: "signing", Text: idp.Ed25519CertB64()}}, {{Use: "", Text: "bm90IGEgY2VydA=="}}} {
			st.ClearSPs()
			m := sso.BaseSP(nil, false)
			m.Certs = certs
			if _, err := st.Register("app-1", m); err != nil {
				run.Count("sp-registration-refused")
				continue
			}
			for _, withSig := range []bool{false, true} {
				body := fullAttrQuery(withSig)
				probe("attrquery-keytype", env, idp.ReqSpec{Method: http.MethodPost, Path: "/attribute", RawBody: &body}, map[string]interface{}{"certs": certs, "sig": withSig})
			}
			// ----- SigAlg x key type on the Redirect binding (SSO and logout)
			for _, alg := range sigAlgs {
				for _, sig := range sigValues() {
					for _, want := range []string{"false", "true"} {
						conf := idp.DefaultConf()
						conf.IDPConfig.WantAuthRequestsSigned = want
						e2, err := idp.NewEnvWithStorage(idp.EnvConfig{Issuer: sso.IssuerURL, Conf: conf}, st)
						if err != nil {
							continue
						}
						q := []idp.Param{idp.Q("SAMLRequest", idp.DeflateB64([]byte(authn))), idp.Q("RelayState", "rs")}
						if alg != "-" {
							q = append(q, idp.Q("SigAlg", alg))
						}
						q = append(q, idp.Q("Signature", sig))
						probe("sigalg-x-keytype", e2, idp.ReqSpec{Method: http.MethodGet, Path: "/SSO", Query: q}, map[string]interface{}{"certs": certs, "SigAlg": alg, "Signature": sig, "want": want})
					}
				}
			}
		}
		st.ClearSPs()
		st.Register("app-1", sso.BaseSP(nil, true))
		// ----- the remaining routes: methods, parameters, storage faults
		for _, path := range []string{"/metadata", "/certificate", "/healthz", "/ready", "/login", "/SSO", "/SLO", "/attribute", "/", "/nope"} {
			for _, method := range []string{http.MethodGet, http.MethodPost, http.MethodHead, http.MethodPut, http.MethodDelete, http.MethodOptions} {
				for _, q := range [][]idp.Param{nil, {idp.Q("id", "")}, {idp.Q("id", "missing")}, {idp.Q("id", "a"), idp.Q("id", "b")}, {{K: "%zz", V: "%zz"}}, {idp.Q("SAMLRequest", "")}, {idp.Q("SAMLRequest", "%%%")}, {idp.Q("SAMLRequest", "AAAA"), idp.Q("SAMLEncoding", "x")}} {
					spec := idp.ReqSpec{Method: method, Path: path}
					if method == http.MethodPost {
						spec.Body = q
					} else {
						spec.Query = q
					}
					probe("routes", env, spec, map[string]interface{}{})
				}
			}
		}
		for _, op := range []string{"GetResponseSigningKey", "GetMetadataSigningKey", "GetCA", "Health", "GetEntityByID", "GetEntityIDByAppID", "AuthRequestByID", "SetUserinfoWithUserID", "SetUserinfoWithLoginName", "CreateAuthRequest"} {
			// (a zero rsa.PrivateKey value is not an error outcome of storage but an ill-formed Go value; it is outside the property)
			for _, kind := range []string{"error", "nilrecord", "nokey", "nocert", "emptycert"} {
				for nth := 1; nth <= 2; nth++ {
					for _, signMeta := range []bool{false, true} {
						conf := idp.DefaultConf()
						if signMeta {
							conf.MetadataConfig = metaConf()
						}
						e2, err := idp.NewEnvWithStorage(idp.EnvConfig{Issuer: sso.IssuerURL, Conf: conf}, st)
						if err != nil {
							continue
						}
						st.Requests["c09"] = &idp.AuthReq{ID: "c09", AppID: "app-1", RelayState: "rs", ACS: "https://sp.example/acs/post", Binding: idp.PostBinding, AuthReqID: "_r", UserID: "alice"}
						st.Apps["app-1"] = sso.SPEntity
						aq := fullAttrQuery(false)
						for _, spec := range []idp.ReqSpec{{Method: http.MethodGet, Path: "/metadata"}, {Method: http.MethodGet, Path: "/certificate"}, {Method: http.MethodGet, Path: "/ready"},
							{Method: http.MethodGet, Path: "/login", Query: []idp.Param{idp.Q("id", "c09")}}, {Method: http.MethodPost, Path: "/attribute", RawBody: &aq},
							{Method: http.MethodPost, Path: "/SSO", Body: []idp.Param{idp.Q("SAMLRequest", idp.B64([]byte(authn)))}},
							{Method: http.MethodPost, Path: "/SLO", Body: []idp.Param{idp.Q("SAMLRequest", idp.B64([]byte(fullLogout())))}}} {
							st.ResetLog()
							st.Faults = []idp.Fault{{Op: op, Nth: nth, Kind: kind}}
							probe("storage-fault", e2, spec, map[string]interface{}{"fault": st.Faults[0], "metadata_signing": signMeta})
							st.Faults = nil
						}
					}
				}
			}
		}
		// ----- SP registration: every structural edit of a full metadata document, certificate variants, byte mutations
		reg := func(class, doc string, desc map[string]interface{}) {
			run.Res.Evaluations++
			run.Count("probe=" + class)
			var err error
			p := recovered(func() {
				_, err = serviceprovider.NewServiceProvider("app", &serviceprovider.Config{Metadata: []byte(doc)}, func(id string) string { return "https://login/" + id })
			})
			run.Distinct(fmt.Sprintf("%s/err=%v/panic=%v", class, err != nil, p != ""))
			if err != nil {
				run.Count("registration=refused")
			} else {
				run.Count("registration=accepted")
			}
			if p != "" {
				desc["metadata"] = doc
				run.Fail(coqgen.Failure{ID: 500000 + run.Res.Evaluations, Class: "panic:" + class, What: p, Input: desc})
			}
		}
		certs := map[string]string{"rsa": spKey.CertB64(), "ec": idp.ECCertB64(), "not-base64": "!!!", "base64-not-der": "bm90IGEgY2VydA==", "empty": "", "blank": " ", "blank-lines": "\n\t  \n", "armour-only": "-----BEGIN CERTIFICATE-----\n-----END CERTIFICATE-----", "truncated": spKey.CertB64()[:200], "whitespace": " \n" + spKey.CertB64()[:64] + "\n" + spKey.CertB64()[64:] + "\n "}
		var cnames []string
		for k := range certs {
			cnames = append(cnames, k)
		}
		sort.Strings(cnames)
		for _, cn := range cnames {
			_, mdocs, mlabels, err := editsOf(fullSPMetadata(certs[cn]))
			if err != nil {
				run.Note("metadata base: %v", err)
				continue
			}
			for i, d := range mdocs {
				if cn != "rsa" && strings.Contains(mlabels[i], "+") {
					continue
				}
				reg("sp-metadata-"+cn, d, map[string]interface{}{"edit": mlabels[i], "cert": cn})
			}
		}
		for i, d := range byteMutations(r, fullSPMetadata(spKey.CertB64()), nMut*2) {
			reg("sp-metadata-bytes", d, map[string]interface{}{"mut": i})
		}
		for _, d := range []string{"", " ", "<", "not xml", "<a/>", "<EntityDescriptor/>", `<EntityDescriptor xmlns="urn:oasis:names:tc:SAML:2.0:metadata"/>`,
			`<EntityDescriptor xmlns="urn:oasis:names:tc:SAML:2.0:metadata" entityID="x"><IDPSSODescriptor/></EntityDescriptor>`,
			`<EntitiesDescriptor xmlns="urn:oasis:names:tc:SAML:2.0:metadata"><EntityDescriptor entityID="x"><SPSSODescriptor/></EntityDescriptor></EntitiesDescriptor>`,
			`<?xml version="1.0" encoding="ISO-8859-1"?><EntityDescriptor xmlns="urn:oasis:names:tc:SAML:2.0:metadata" entityID="x"/>`, "\xef\xbb\xbf<a/>", strings.Repeat("<a>", 5000)} {
			reg("sp-metadata-shapes", d, map[string]interface{}{})
		}
	}

	rule := "every deletion / duplication / emptying of each element, every deletion / emptying of each attribute and the replacement of each attribute value and each element text by each of 9 hostile values (unparsable URLs, broken percent escapes, blanks, format verbs, out-of-range numbers, 5 kB) in a full AuthnRequest (unsigned and enveloped-signed; POST and Redirect; signing required and not), LogoutRequest (POST and Redirect), SOAP AttributeQuery (with and without ds:Signature) and SP metadata document (10 certificate variants: RSA, EC, not base64, not DER, empty, blank, blank lines, PEM armour only, truncated, wrapped), applied singly and in pairs (quick: all singles and a sample of pairs per document; thorough: all pairs), plus byte-level mutations of each; every SigAlg URI (and none / junk) x {RSA, EC, Ed25519, undecodable, no} registered certificate x 12 signature values (junk, empty, undecodable, RSA-sized, r||s-sized, well-formed and degenerate DER (r, s) sequences) x signing required or not; every route x 6 methods x 8 parameter shapes; every storage fault (operation x kind x 1st/2nd call x metadata signing) on every endpoint. A recovered panic is a failure. The SSO requests additionally go through the Coq model (whose Panicked outcome is proved unreachable) and must agree with it. distinct = (class, status/outcome)."
	return sso.RunWith("C09", dir, tier, seed, scenarios, rule, extra, oracle)
}

// sigValues: junk, empty, undecodable, raw values of RSA / (r||s) sizes, and well-formed DER SEQUENCE{INTEGER r, INTEGER s}
// values (what DSA / ECDSA verification parses before it looks at the key)
func sigValues() []string {
	der := func(r, s []byte) string {
		enc := func(b []byte) []byte {
			if b[0]&0x80 != 0 {
				b = append([]byte{0}, b...)
			}
			return append([]byte{2, byte(len(b))}, b...)
		}
		body := append(enc(r), enc(s)...)
		return base64.StdEncoding.EncodeToString(append([]byte{0x30, byte(len(body))}, body...))
	}
	big := bytesOf(20, 0x7f)
	return []string{"Zm9yZ2Vk", "", "!!", base64.StdEncoding.EncodeToString(make([]byte, 256)), base64.StdEncoding.EncodeToString(make([]byte, 40)), base64.StdEncoding.EncodeToString(bytesOf(64, 1)),
		der([]byte{1}, []byte{1}), der(big, big), der(bytesOf(32, 0x11), bytesOf(32, 0x22)), der([]byte{0}, []byte{0}), "MAA=", "MAYCAQECAQECAQE="}
}

func bytesOf(n int, v byte) []byte {
	b := make([]byte, n)
	for i := range b {
		b[i] = v
	}
	return b
}

func metaConf() *provider.MetadataConfig {
	return &provider.MetadataConfig{SignatureAlgorithm: idp.RSASHA256}
}

var sigAlgs = []string{"-", "", idp.RSASHA1, idp.RSASHA256, "http://www.w3.org/2001/04/xmldsig-more#rsa-sha384", "http://www.w3.org/2001/04/xmldsig-more#rsa-sha512",
	"http://www.w3.org/2000/09/xmldsig#dsa-sha1", "http://www.w3.org/2009/xmldsig11#dsa-sha256", "http://www.w3.org/2001/04/xmldsig-more#ecdsa-sha1", "http://www.w3.org/2001/04/xmldsig-more#ecdsa-sha256",
	"http://www.w3.org/2001/04/xmldsig-more#ecdsa-sha384", "http://www.w3.org/2001/04/xmldsig-more#ecdsa-sha512", "http://www.w3.org/2001/04/xmldsig-more#rsa-ripemd160", "urn:junk", "RSA-SHA256"}
