// Package c20 drives the real checker with instrumented closures and compares with (a) the Coq model
// (cases evaluated by coqc) and (b) an independent Go reference interpreter of the documented semantics.
package c20

import (
	"fmt"
	"math/rand"
	"strings"

	"github.com/zitadel/saml/pkg/provider/checker"

	"verif/harness/internal/coqgen"
)

type Kind int

const (
	ValueNotEmpty Kind = iota
	ValuesNotEmpty
	ValueLength
	ValueEquals
	CondValueNotEmpty
	CondLogic
	Logic
	ValueStep
)

var kindNames = []string{"ValueNotEmpty", "ValuesNotEmpty", "ValueLength", "ValueEquals", "CondValueNotEmpty", "CondLogic", "Logic", "ValueStep"}

type Spec struct {
	K      Kind     `json:"kind"`
	V      string   `json:"v,omitempty"`
	Vs     []string `json:"vs,omitempty"`
	E      string   `json:"e,omitempty"`
	Mn, Mx int      `json:",omitempty"`
	C      bool     `json:"c,omitempty"`
	Err    bool     `json:"err,omitempty"`
}

type Event struct {
	I int
	K string
}

func (s Spec) coq() string {
	switch s.K {
	case ValueNotEmpty:
		return "IValueNotEmpty " + coqgen.Bytes(s.V)
	case ValuesNotEmpty:
		return "IValuesNotEmpty " + coqgen.BytesList(s.Vs)
	case ValueLength:
		return fmt.Sprintf("IValueLength %s %s %s", coqgen.Bytes(s.V), coqgen.Z(int64(s.Mn)), coqgen.Z(int64(s.Mx)))
	case ValueEquals:
		return "IValueEquals " + coqgen.Bytes(s.V) + " " + coqgen.Bytes(s.E)
	case CondValueNotEmpty:
		return "ICondValueNotEmpty " + coqgen.Bool(s.C) + " " + coqgen.Bytes(s.V)
	case CondLogic:
		return "ICondLogic " + coqgen.Bool(s.C) + " " + coqgen.Bool(s.Err)
	case Logic:
		return "ILogic " + coqgen.Bool(s.Err)
	}
	return "IValueStep"
}

func errOf(e bool) error {
	if e {
		return fmt.Errorf("error")
	}
	return nil
}

// runImpl builds the chain on the real checker and evaluates it `times` times.
func runImpl(specs []Spec, times int) (results []bool, traces [][]Event) {
	var trace []Event
	c := &checker.Checker{}
	for i, s := range specs {
		i, s := i, s
		ev := func(k string) { trace = append(trace, Event{i, k}) }
		cb := func() { ev("ECallback") }
		val := func() string { ev("EValue"); return s.V }
		switch s.K {
		case ValueNotEmpty:
			c.WithValueNotEmptyCheck("name", val, cb)
		case ValuesNotEmpty:
			c.WithValuesNotEmptyCheck(func() []string { ev("EValues"); return s.Vs }, cb)
		case ValueLength:
			c.WithValueLengthCheck("name", val, s.Mn, s.Mx, cb)
		case ValueEquals:
			c.WithValueEqualsCheck("name", val, func() string { ev("EEqual"); return s.E }, cb)
		case CondValueNotEmpty:
			c.WithConditionalValueNotEmpty(func() bool { ev("ECond"); return s.C }, "name", val, cb)
		case CondLogic:
			c.WithConditionalLogicStep(func() bool { ev("ECond"); return s.C }, func() error { ev("ELogic"); return errOf(s.Err) }, cb)
		case Logic:
			c.WithLogicStep(func() error { ev("ELogic"); return errOf(s.Err) }, cb)
		case ValueStep:
			c.WithValueStep(func() { ev("ELogic") })
		}
	}
	for t := 0; t < times; t++ {
		trace = nil
		results = append(results, c.CheckFailed())
		traces = append(traces, append([]Event(nil), trace...))
	}
	return
}

// reference interpreter of the documented semantics (independent of the model and of the code)
func fails(s Spec) bool {
	switch s.K {
	case ValueNotEmpty:
		return s.V == ""
	case ValuesNotEmpty:
		for _, v := range s.Vs {
			if v == "" {
				return true
			}
		}
		return false
	case ValueLength:
		return (s.Mn > 0 && len(s.V) < s.Mn) || (s.Mx > 0 && len(s.V) > s.Mx)
	case ValueEquals:
		return s.V != s.E
	case CondValueNotEmpty:
		return s.C && s.V == ""
	case CondLogic:
		return s.C && s.Err
	case Logic:
		return s.Err
	}
	return false
}

// oracle: the property as stated -- order, stop at first failure, callback exactly once, nothing later,
// failure iff some step failed.  The evaluation-event multiplicities are not part of the property.
func oracle(specs []Spec, res bool, trace []Event) string {
	first := -1
	for i, s := range specs {
		if fails(s) {
			first = i
			break
		}
	}
	if res != (first >= 0) {
		return fmt.Sprintf("reported %v but first failing step is %d", res, first)
	}
	cbs := 0
	last := -1
	for _, e := range trace {
		if e.I < last {
			return "steps evaluated out of order"
		}
		last = e.I
		if e.K == "ECallback" {
			cbs++
			if e.I != first {
				return fmt.Sprintf("callback of step %d ran, first failing step is %d", e.I, first)
			}
		}
		if first >= 0 && e.I > first {
			return fmt.Sprintf("step %d ran after failing step %d", e.I, first)
		}
	}
	if first >= 0 && cbs != 1 {
		return fmt.Sprintf("failure callback ran %d times", cbs)
	}
	if first < 0 && cbs != 0 {
		return "callback ran although no step failed"
	}
	// every step up to the end (or the failing one) must have been evaluated: each kind calls a closure
	seen := map[int]bool{}
	for _, e := range trace {
		seen[e.I] = true
	}
	end := len(specs) - 1
	if first >= 0 {
		end = first
	}
	for i := 0; i <= end; i++ {
		if !seen[i] && !(specs[i].K == ValueLength && specs[i].Mn <= 0 && specs[i].Mx <= 0) {
			return fmt.Sprintf("step %d was skipped", i)
		}
	}
	return ""
}

func variant(k Kind, o int) Spec { // o: 0 pass, 1 fail, 2 "condition false"/neutral
	switch k {
	case ValueNotEmpty:
		return [...]Spec{{K: k, V: "x"}, {K: k, V: ""}, {K: k, V: " "}}[o]
	case ValuesNotEmpty:
		return [...]Spec{{K: k, Vs: []string{"a", "b"}}, {K: k, Vs: []string{"a", "", "c"}}, {K: k, Vs: []string{}}}[o]
	case ValueLength:
		return [...]Spec{{K: k, V: "abcd", Mn: 2, Mx: 10}, {K: k, V: "abcd", Mn: 5, Mx: 10}, {K: k, V: "abcd"}}[o]
	case ValueEquals:
		return [...]Spec{{K: k, V: "a", E: "a"}, {K: k, V: "a", E: "b"}, {K: k}}[o]
	case CondValueNotEmpty:
		return [...]Spec{{K: k, C: true, V: "x"}, {K: k, C: true, V: ""}, {K: k, C: false, V: ""}}[o]
	case CondLogic:
		return [...]Spec{{K: k, C: true}, {K: k, C: true, Err: true}, {K: k, C: false, Err: true}}[o]
	case Logic:
		return [...]Spec{{K: k}, {K: k, Err: true}, {K: k}}[o]
	}
	return Spec{K: ValueStep}
}

func randStr(r *rand.Rand) string {
	n := r.Intn(5)
	if r.Intn(4) == 0 {
		n = 0
	}
	var sb strings.Builder
	for i := 0; i < n; i++ {
		sb.WriteByte("ab \x00\xff<"[r.Intn(6)])
	}
	return sb.String()
}

func randSpec(r *rand.Rand) Spec {
	k := Kind(r.Intn(8))
	s := Spec{K: k}
	switch k {
	case ValueNotEmpty:
		s.V = randStr(r)
	case ValuesNotEmpty:
		n := r.Intn(4)
		s.Vs = []string{}
		for i := 0; i < n; i++ {
			s.Vs = append(s.Vs, randStr(r))
		}
	case ValueLength:
		s.V = randStr(r)
		s.Mn = r.Intn(8) - 2
		s.Mx = r.Intn(8) - 2
	case ValueEquals:
		s.V = randStr(r)
		if r.Intn(2) == 0 {
			s.E = s.V
		} else {
			s.E = randStr(r)
		}
	case CondValueNotEmpty:
		s.C = r.Intn(2) == 0
		s.V = randStr(r)
	case CondLogic:
		s.C = r.Intn(2) == 0
		s.Err = r.Intn(3) == 0
	case Logic:
		s.Err = r.Intn(4) == 0
	}
	return s
}

func eventsCoq(t []Event) string {
	o := make([]string, len(t))
	for i, e := range t {
		o[i] = fmt.Sprintf("(%d, %s)", e.I, e.K)
	}
	return coqgen.List(o)
}

func shape(specs []Spec) string {
	var sb strings.Builder
	for _, s := range specs {
		f := 0
		if fails(s) {
			f = 1
		}
		fmt.Fprintf(&sb, "%d%d.", s.K, f)
	}
	return sb.String()
}

// Run executes the C20 harness.
func Run(dir, tier string, seed int64) error {
	run := coqgen.NewRun(dir, "C20", tier, seed)
	run.Imports = "From Saml Require Import Base.Bytes Core.Checker Corr.C20Corr."
	run.CaseType = "c20case"
	run.BadFn = "c20_bad"
	r := rand.New(rand.NewSource(seed))
	maxLen, coqRandom, randomLong := 4, 900, 20000
	if tier == "thorough" {
		maxLen, coqRandom, randomLong = 5, 6000, 300000
	}
	id := 0
	handle := func(specs []Spec, toCoq bool) {
		res, traces := runImpl(specs, 2)
		run.Res.Evaluations++
		first := -1
		for i, s := range specs {
			if fails(s) {
				first = i
				break
			}
		}
		run.Count(fmt.Sprintf("len=%d", len(specs)))
		if first >= 0 {
			run.Count("outcome=fail:" + kindNames[specs[first].K])
		} else {
			run.Count("outcome=pass")
		}
		if len(specs) > 0 {
			run.Distinct(shape(specs))
		}
		if why := oracle(specs, res[0], traces[0]); why != "" {
			run.Fail(coqgen.Failure{ID: id, Class: "checker-semantics", What: why, Input: map[string]interface{}{"specs": specs, "result": res[0], "trace": traces[0]}})
		}
		// re-evaluation repeats the same behaviour
		if res[0] != res[1] || fmt.Sprint(traces[0]) != fmt.Sprint(traces[1]) {
			run.Fail(coqgen.Failure{ID: id, Class: "checker-reevaluation", What: "second CheckFailed() differs from the first", Input: map[string]interface{}{"specs": specs, "first": traces[0], "second": traces[1]}})
		}
		if toCoq {
			sp := make([]string, len(specs))
			for i, s := range specs {
				sp[i] = s.coq()
			}
			run.AddCase(id, fmt.Sprintf("(%s, %s, (%s, %s))", coqgen.Z(int64(id)), coqgen.List(sp), coqgen.Bool(res[0]), eventsCoq(traces[0])),
				map[string]interface{}{"specs": specs, "result": res[0], "trace": traces[0]})
			if len(specs) >= 2 {
				run.Sample(map[string]interface{}{"specs": specs, "result": res[0], "trace": traces[0]})
			}
		}
		id++
	}
	// exhaustive over 8 kinds x 3 outcomes up to maxLen; all of length <= 2 and a random sample of the rest go to Coq
	total := 0
	for n := 0; n <= maxLen; n++ {
		c := 1
		for i := 0; i < n; i++ {
			c *= 24
		}
		total += c
	}
	pick := float64(coqRandom/2) / float64(total)
	var rec func(prefix []Spec, n int)
	rec = func(prefix []Spec, n int) {
		if len(prefix) == n {
			handle(append([]Spec(nil), prefix...), n <= 2 || r.Float64() < pick)
			return
		}
		for k := Kind(0); k < 8; k++ {
			for o := 0; o < 3; o++ {
				rec(append(prefix, variant(k, o)), n)
			}
		}
	}
	for n := 0; n <= maxLen; n++ {
		rec(nil, n)
	}
	run.Res.Exhaustive = true
	// random chains with random parameters, lengths 1..12 (thorough: ..16)
	for i := 0; i < randomLong; i++ {
		n := 1 + r.Intn(12)
		specs := make([]Spec, n)
		for j := range specs {
			specs[j] = randSpec(r)
			if j < n-1 && r.Intn(3) != 0 && fails(specs[j]) { // keep chains alive longer
				specs[j] = randSpec(r)
			}
		}
		handle(specs, i < coqRandom/2)
	}
	run.Res.Rule = fmt.Sprintf("every chain over 8 step kinds x 3 outcome variants up to length %d (exhaustive, run on the real checker and checked by the Go reference oracle), plus %d random chains of length 1..12 with random strings/bounds; all chains of length <= 2 plus a seeded sample (%d) are also evaluated by the Coq model and compared event for event. distinct = distinct (kind,fails?) sequences.", maxLen, randomLong, coqRandom)
	return run.Finish()
}
