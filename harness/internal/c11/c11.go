// Package c11: provider configurations x request hosts. The served metadata (entityID, advertised locations, certificate,
// WantAuthnRequestsSigned) is compared with the Coq router model and, independently, with what the provider does: the
// handler answering each advertised location, the Issuer of protocol messages, the certificate endpoint and the
// acceptance of unsigned requests.
package c11

import (
	"bytes"
	"crypto/x509"
	"encoding/base64"
	"encoding/pem"
	"fmt"
	"math/rand"
	"net/http"
	"net/url"
	"strings"
	"time"

	"github.com/beevik/etree"
	dsig "github.com/russellhaering/goxmldsig"
	"github.com/zitadel/saml/pkg/provider"
	"github.com/zitadel/saml/pkg/provider/key"
	"github.com/zitadel/saml/pkg/provider/xml/md"
	"github.com/zitadel/saml/pkg/provider/xml/samlp"
	"github.com/zitadel/saml/pkg/provider/xml/xml_dsig"

	"verif/harness/internal/c18"
	"verif/harness/internal/coqgen"
	"verif/harness/internal/idp"
	"verif/harness/internal/sso"
)

type epOpt struct {
	set       bool
	path, url string
}

func (o epOpt) endpoint() *provider.Endpoint {
	if !o.set {
		return nil
	}
	var e provider.Endpoint
	if o.url != "" {
		e = provider.NewEndpointWithURL(o.path, o.url)
	} else {
		e = provider.NewEndpoint(o.path)
	}
	return &e
}
func (o epOpt) coq() string {
	if !o.set {
		return "None"
	}
	return fmt.Sprintf("(Some {| Endpoint_path := %s; Endpoint_url := %s |})", coqgen.Bytes(o.path), coqgen.Bytes(o.url))
}
func (o epOpt) String() string {
	if !o.set {
		return "default"
	}
	if o.url != "" {
		return "url:" + o.url + "(" + o.path + ")"
	}
	return "path:" + o.path
}

type conf struct {
	meta, cert, callback, sso, slo, attr epOpt
}

func (c conf) coq() string {
	return fmt.Sprintf("{| k_metadata := %s; k_cert := %s; k_callback := %s; k_sso := %s; k_slo := %s; k_attr := %s |}", c.meta.coq(), c.cert.coq(), c.callback.coq(), c.sso.coq(), c.slo.coq(), c.attr.coq())
}

// effective path (the documented defaults), used by the independent oracle only
func (c conf) eff() [6]epOpt {
	d := func(o epOpt, def string) epOpt {
		if !o.set {
			return epOpt{true, def, ""}
		}
		return o
	}
	return [6]epOpt{d(c.meta, "/metadata"), d(c.cert, "certificate"), d(c.callback, "login"), d(c.sso, "SSO"), d(c.slo, "SLO"), d(c.attr, "attribute")}
}

func esc(p string) string { return (&url.URL{Path: p}).EscapedPath() }

func rel(p string) string { return "/" + strings.TrimPrefix(p, "/") }

type issuerCfg struct {
	name      string
	static    string
	hostPath  *string
	forwarded bool
}

func sp(s string) *string { return &s }

type fingerprint struct {
	code int
	what string
	sick int // status code when the storage health probe fails (tells /ready from /healthz)
}

func probeFP(env *idp.Env, spec idp.ReqSpec) fingerprint {
	spec.Path = (&url.URL{Path: spec.Path}).EscapedPath() // the request target is percent-encoded; the router matches the decoded path
	fp := fpOf(env.Do(spec.HTTP()))
	env.Storage.ResetLog()
	env.Storage.Faults = []idp.Fault{{Op: "Health", Nth: 1, Kind: "error"}}
	fp.sick = env.Do(spec.HTTP()).Code
	env.Storage.Faults = nil
	env.Storage.ResetLog()
	return fp
}

func fpOf(rep *idp.Reply) fingerprint {
	what := rep.Kind
	if rep.Doc != nil {
		what += ":" + rep.Doc.Local
	} else if rep.Kind != "empty" {
		b := strings.TrimSpace(string(rep.Body))
		if len(b) > 24 {
			b = b[:24]
		}
		what += ":" + b
	}
	return fingerprint{code: rep.Code, what: what}
}

func Run(dir, tier string, seed int64) error {
	run := coqgen.NewRun(dir, "C11", tier, seed)
	run.Imports = "From Saml Require Import Base.Bytes Xml.Tree Gen.Pure Idp.Router Idp.BuilderTypes Idp.Builder Corr.C11Corr."
	run.CaseType = "c11case"
	run.BadFn = "c11_bad"
	run.PerShard = 200
	r := rand.New(rand.NewSource(seed))
	id := 0
	fail := func(class, what string, in interface{}) {
		run.Fail(coqgen.Failure{ID: id, Class: class, What: what, Input: in})
	}

	// the configuration dimensions that do not move routes: organisation / contact person (plain, with XML metacharacters and
	// separators, non-ASCII), encryption algorithm, validity / caching / error URL
	type extras struct {
		org, contact string
		enc, meta    bool
	}
	extraOf := func(k int) extras {
		return []extras{{}, {org: "Example Org", contact: "Jane Doe"}, {org: "Smith & Sons <Ltd> \"q\"", contact: "O'Brien, Jane <jane@example.com>; +41 44,,12"}, {enc: true, meta: true},
			{org: "Zürich ☃ AG", contact: "Ünal, Émile", enc: true, meta: true}}[k%5]
	}
	extra := extras{}
	mkEnv := func(ic issuerCfg, c conf, want string, insecureOK bool) (*idp.Env, error) {
		pc := idp.DefaultConf()
		if extra.org != "" {
			pc.Organisation = &provider.Organisation{Name: extra.org, DisplayName: extra.org + " (display)", URL: "https://org.example/?a=1&b=" + extra.org}
		}
		if extra.contact != "" {
			pc.ContactPerson = &provider.ContactPerson{ContactType: "technical", Company: extra.contact + " co", GivenName: extra.contact + " gn", SurName: extra.contact + " sn", EmailAddress: extra.contact + " mail", TelephoneNumber: extra.contact + " tel"}
		}
		if extra.enc {
			pc.IDPConfig.EncryptionAlgorithm = "http://www.w3.org/2001/04/xmlenc#aes256-cbc"
		}
		if extra.meta {
			pc.IDPConfig.MetadataIDPConfig = &provider.MetadataIDPConfig{ValidUntil: 48 * time.Hour, CacheDuration: "PT1H", ErrorURL: "https://idp.example/error?a=1&b=2"}
		}
		pc.Metadata = c.meta.endpoint()
		pc.IDPConfig.WantAuthRequestsSigned = want
		pc.IDPConfig.Endpoints = &provider.EndpointConfig{Certificate: c.cert.endpoint(), Callback: c.callback.endpoint(), SingleSignOn: c.sso.endpoint(), SingleLogOut: c.slo.endpoint(), Attribute: c.attr.endpoint()}
		ec := idp.EnvConfig{Issuer: ic.static, HostPath: ic.hostPath, Forwarded: ic.forwarded, Conf: pc}
		env, err := idp.NewEnv(ec)
		if err != nil {
			return nil, err
		}
		if _, err := env.Storage.Register("app-1", sso.BaseSP(nil, true)); err != nil {
			return nil, err
		}
		env.Storage.Apps["app-1"] = sso.SPEntity
		return env, nil
	}

	// ---- reference fingerprints: default configuration, documented default routes
	ref, err := mkEnv(issuerCfg{static: "https://idp.example"}, conf{}, "", false)
	if err != nil {
		return err
	}
	names := []string{"health", "ready", "metadata", "certificate", "callback", "sso", "slo", "attribute"}
	fps := map[fingerprint]int{}
	for i, p := range []string{"/healthz", "/ready", "/metadata", "/certificate", "/login", "/SSO", "/SLO", "/attribute"} {
		fp := probeFP(ref, idp.ReqSpec{Method: http.MethodGet, Path: p})
		if j, dup := fps[fp]; dup {
			return fmt.Errorf("handlers %s and %s are indistinguishable by fingerprint %v", names[j], names[i], fp)
		}
		fps[fp] = i
	}
	nf := probeFP(ref, idp.ReqSpec{Method: http.MethodGet, Path: "/no-such-route"})
	handlerAt := func(env *idp.Env, host, path string) int {
		fp := probeFP(env, idp.ReqSpec{Method: http.MethodGet, Path: path, Host: host})
		if fp == nf {
			return -1
		}
		if h, ok := fps[fp]; ok {
			return h
		}
		return -2
	}

	// ---- configurations
	opts := []epOpt{{}, {true, "custom/x", ""}, {true, "/custom/x", ""}, {true, "a/b/", ""}, {true, "ext", "https://other.example/x"}, {true, "", ""}, {true, "/", ""}, {true, "UPPER", ""}, {true, "with space", ""}}
	collide := []epOpt{{true, "metadata", ""}, {true, "healthz", ""}, {true, "/ready", ""}, {true, "SSO", ""}, {true, "login", ""}}
	issuers := []issuerCfg{{name: "static", static: "https://idp.example"}, {name: "static-slash", static: "https://idp.example/"}, {name: "static-path", static: "https://idp.example/saml"},
		{name: "static-path-slash", static: "https://idp.example/saml/"}, {name: "static-port-path", static: "https://idp.example:8443/a/b"},
		{name: "host", hostPath: sp("")}, {name: "host-path", hostPath: sp("/saml")}, {name: "host-path-noslash", hostPath: sp("saml")}, {name: "forwarded", hostPath: sp("/fw"), forwarded: true}}
	hosts := []string{"idp.example", "tenant-1.idp.example:8443"}
	var confs []conf
	confs = append(confs, conf{})
	setField := func(c *conf, i int, o epOpt) {
		switch i {
		case 0:
			c.meta = o
		case 1:
			c.cert = o
		case 2:
			c.callback = o
		case 3:
			c.sso = o
		case 4:
			c.slo = o
		case 5:
			c.attr = o
		}
	}
	for i := 0; i < 6; i++ {
		for _, o := range append(append([]epOpt{}, opts[1:]...), collide...) {
			var c conf
			setField(&c, i, o)
			confs = append(confs, c)
		}
	}
	nRand := 60
	if tier == "thorough" {
		nRand = 1500
	}
	for k := 0; k < nRand; k++ {
		var c conf
		for i := 0; i < 6; i++ {
			if r.Intn(12) == 0 {
				setField(&c, i, collide[r.Intn(len(collide))])
			} else {
				setField(&c, i, opts[r.Intn(len(opts))])
			}
		}
		confs = append(confs, c)
	}
	seenLoc := map[string]bool{}
	var seenLocs []string
	serviceOf := map[string]int{"SingleSignOnService": 0, "SingleLogoutService": 1, "AttributeService": 2}
	svcHandler := []int{5, 6, 7}
	for ci, c := range confs {
		ic := issuers[ci%len(issuers)]
		if ci < len(issuers) {
			c = conf{} // every issuer kind with the default configuration first
		}
		extra = extraOf(ci)
		env, err := mkEnv(ic, c, "", false)
		extra = extras{}
		if err != nil {
			run.Note("configuration %v / %s refused: %v", c, ic.name, err)
			continue
		}
		ex := extraOf(ci)
		run.Count(fmt.Sprintf("extras=org:%v,contact:%v,enc:%v,meta:%v", ex.org != "", ex.contact != "", ex.enc, ex.meta))
		eff := c.eff()
		distinct := map[string]bool{"/healthz": true, "/ready": true}
		noDup := true
		for _, e := range eff {
			if distinct[rel(e.path)] {
				noDup = false
			}
			distinct[rel(e.path)] = true
		}
		host := hosts[ci%len(hosts)]
		spec := idp.ReqSpec{Method: http.MethodGet, Path: esc(rel(eff[0].path)), Host: host, Header: map[string][]string{}}
		if ic.forwarded && ci%3 == 0 {
			spec.Header["Forwarded"] = []string{"host=fw.example"}
		}
		issuer := env.Provider.IssuerFromRequest(spec.HTTP())
		desc := map[string]interface{}{"issuer_kind": ic.name, "issuer": issuer, "host": host, "metadata": c.meta.String(), "certificate": c.cert.String(), "callback": c.callback.String(), "sso": c.sso.String(), "slo": c.slo.String(), "attribute": c.attr.String(), "routes_distinct": noDup}
		run.Count("issuer=" + ic.name)
		run.Count(fmt.Sprintf("routes_distinct=%v", noDup))
		// which handler answers each effective route and a few others: model correspondence
		probe := []string{"/healthz", "/ready", "/metadata", "/nope", "/"}
		for _, e := range eff {
			probe = append(probe, rel(e.path))
		}
		seen := map[string]bool{}
		for _, p := range probe {
			if seen[p] {
				continue
			}
			seen[p] = true
			h := handlerAt(env, host, p)
			run.Res.Evaluations++
			if h == -2 {
				fail("route-answer-unrecognised", fmt.Sprintf("the reply at %q matches no handler fingerprint", p), desc)
			} else {
				run.AddCase(id, fmt.Sprintf("KRoute %s %s %s %s", coqgen.Z(int64(id)), c.coq(), coqgen.Bytes(p), coqgen.Z(int64(h))), map[string]interface{}{"conf": desc, "path": p, "handler": h})
			}
			id++
		}
		// the metadata document
		if !noDup && handlerAt(env, host, rel(eff[0].path)) != 2 {
			run.Count("metadata-route-shadowed")
			continue
		}
		rep := env.Do(spec.HTTP())
		run.Res.Evaluations++
		if rep.Doc == nil || rep.Doc.Local != "EntityDescriptor" {
			fail("metadata-not-served", fmt.Sprintf("GET %s: %s %d %s", spec.Path, rep.Kind, rep.Code, rep.DocErr), desc)
			id++
			continue
		}
		entity := rep.Doc.AttrOr("entityID", "")
		// what was configured must be what a generic parser reads back, element for element
		{
			texts := map[string][]string{}
			rep.Doc.Walk(func(n *idp.Node) {
				switch n.Local {
				case "OrganizationName", "OrganizationDisplayName", "OrganizationURL", "Company", "GivenName", "SurName", "EmailAddress", "TelephoneNumber":
					if len(n.Children) > 0 {
						texts[n.Local] = append(texts[n.Local], "<has child elements>")
					} else {
						texts[n.Local] = append(texts[n.Local], n.Text)
					}
				}
			})
			wantTexts := map[string]string{}
			if ex.org != "" {
				wantTexts["OrganizationName"], wantTexts["OrganizationDisplayName"], wantTexts["OrganizationURL"] = ex.org, ex.org+" (display)", "https://org.example/?a=1&b="+ex.org
			}
			if ex.contact != "" {
				wantTexts["Company"], wantTexts["GivenName"], wantTexts["SurName"], wantTexts["EmailAddress"], wantTexts["TelephoneNumber"] = ex.contact+" co", ex.contact+" gn", ex.contact+" sn", ex.contact+" mail", ex.contact+" tel"
			}
			for name, got := range texts {
				w, configured := wantTexts[name]
				for _, g := range got {
					if !configured || g != w {
						fail("configured-text-not-published-verbatim", fmt.Sprintf("<%s> reads %q, configured %q (configured: %v)", name, g, w, configured), desc)
						break
					}
				}
			}
			for name, w := range wantTexts {
				// once per role descriptor
				if len(texts[name]) != 2 {
					fail("configured-text-not-published-verbatim", fmt.Sprintf("<%s> occurs %d times (texts %q), want once in each of the two role descriptors with %q", name, len(texts[name]), texts[name], w), desc)
				}
			}
		}
		var locs []string
		type adv struct {
			svc int
			loc string
		}
		var advs []adv
		rep.Doc.Walk(func(n *idp.Node) {
			if s, ok := serviceOf[n.Local]; ok {
				l := n.AttrOr("Location", "")
				advs = append(advs, adv{s, l})
			}
		})
		// document order is SSO, SSO, SLO, SLO (IDPSSODescriptor) then AttributeService (AttributeAuthorityDescriptor): as in the model
		for _, a := range advs {
			locs = append(locs, fmt.Sprintf("(%s, %s)", coqgen.Z(int64(a.svc)), coqgen.Bytes(a.loc)))
		}
		desc["entityID"] = entity
		run.AddCase(id, fmt.Sprintf("KMeta %s %s %s %s %s", coqgen.Z(int64(id)), c.coq(), coqgen.Bytes(issuer), coqgen.Bytes(entity), coqgen.List(locs)), desc)
		// the whole document against the translated metadata builders (Gen/Builders.v) and the struct tags
		{
			mp := c18.MetaParams{}
			if ex.org != "" {
				mp.Org = &[3]string{ex.org, ex.org + " (display)", "https://org.example/?a=1&b=" + ex.org}
			}
			if ex.contact != "" {
				mp.Contact = &[6]string{"technical", ex.contact + " co", ex.contact + " gn", ex.contact + " sn", ex.contact + " mail", ex.contact + " tel"}
			}
			if ex.enc {
				mp.Enc = "http://www.w3.org/2001/04/xmlenc#aes256-cbc"
			}
			if ex.meta {
				mp.Cache, mp.ErrURL = "PT1H", "https://idp.example/error?a=1&b=2"
			}
			if mc, ok := c18.MetadataCase(id+500000, rep.Body, issuer, mp); ok {
				run.Res.Evaluations++
				run.Count("built=metadata")
				run.AddCase(id+500000, "KMetaDoc "+mc, map[string]interface{}{"conf": desc, "document": string(rep.Body)})
			}
		}
		run.Distinct(fmt.Sprintf("%s/%s/%s/%s/%v", ic.name, c.meta.String(), c.sso.String(), c.attr.String(), noDup))
		if ci%7 == 0 {
			run.Sample(desc)
		}
		// ---- independent oracles
		trimmed := strings.TrimSuffix(issuer, "/")
		for _, a := range advs {
			if !seenLoc[a.loc] && len(seenLocs) < 400 {
				seenLoc[a.loc] = true
				seenLocs = append(seenLocs, a.loc)
			}
		}
		for _, a := range advs {
			e := eff[3+a.svc]
			if e.url != "" {
				if a.loc != e.url {
					fail("external-url-not-advertised-verbatim", fmt.Sprintf("%s advertised as %q, configured URL %q", names[svcHandler[a.svc]], a.loc, e.url), desc)
				}
				continue
			}
			if !strings.HasPrefix(a.loc, trimmed+"/") {
				fail("advertised-location-not-under-issuer", fmt.Sprintf("%s advertised as %q, issuer %q", names[svcHandler[a.svc]], a.loc, issuer), desc)
				continue
			}
			if !noDup {
				continue
			}
			path := a.loc[len(trimmed):]
			if h := handlerAt(env, host, path); h != svcHandler[a.svc] {
				got := "no route"
				if h >= 0 {
					got = names[h]
				}
				fail("advertised-location-not-served-by-its-handler", fmt.Sprintf("%s advertised at %q: path %q is answered by %s", names[svcHandler[a.svc]], a.loc, path, got), desc)
			}
		}
		// entityID = Issuer of protocol messages for the same host
		if noDup {
			lo := `<samlp:LogoutRequest xmlns:samlp="urn:oasis:names:tc:SAML:2.0:protocol" xmlns:saml="urn:oasis:names:tc:SAML:2.0:assertion" ID="_lo" Version="2.0"><saml:Issuer>` + sso.SPEntity + `</saml:Issuer><saml:NameID>u</saml:NameID></samlp:LogoutRequest>`
			ar := `<samlp:AuthnRequest xmlns:samlp="urn:oasis:names:tc:SAML:2.0:protocol" xmlns:saml="urn:oasis:names:tc:SAML:2.0:assertion" ID="_ar" Version="2.0" IssueInstant="` + idp.NowInstant() + `"><saml:Issuer>` + sso.SPEntity + `</saml:Issuer><saml:Conditions NotOnOrAfter="2001-01-01T00:00:00Z"/></samlp:AuthnRequest>`
			for _, q := range []struct {
				what string
				spec idp.ReqSpec
			}{
				{"LogoutResponse", idp.ReqSpec{Method: http.MethodPost, Path: esc(rel(eff[4].path)), Host: host, Header: spec.Header, Body: []idp.Param{idp.Q("SAMLRequest", idp.B64([]byte(lo)))}}},
				{"Response", idp.ReqSpec{Method: http.MethodPost, Path: esc(rel(eff[3].path)), Host: host, Header: spec.Header, Body: []idp.Param{idp.Q("SAMLRequest", idp.B64([]byte(ar)))}}},
			} {
				rp := env.Do(q.spec.HTTP())
				run.Res.Evaluations++
				if rp.Doc == nil {
					continue
				}
				iss := rp.Doc.Child("Issuer")
				if iss == nil || iss.TextOf() != entity {
					got := "<none>"
					if iss != nil {
						got = iss.TextOf()
					}
					fail("issuer-differs-from-entity-id", fmt.Sprintf("%s Issuer %q, metadata entityID %q", q.what, got, entity), desc)
				}
			}
			// advertised = checked: a request addressed to the advertised single sign-on location (or to nothing) passes the
			// Destination check of this very configuration and host; one addressed elsewhere is refused
			advSSO, advSLO := "", ""
			for _, a := range advs {
				if a.svc == 0 && advSSO == "" {
					advSSO = a.loc
				}
				if a.svc == 1 && advSLO == "" {
					advSLO = a.loc
				}
			}
			if advSSO != "" { // (the environment has the base service provider registered, unsigned requests allowed)
				for _, dest := range []string{"", advSSO, advSSO + "/", advSLO, strings.TrimSuffix(issuer, "/") + "/nowhere", rel(eff[3].path)} {
					attrD := ""
					if dest != "" {
						attrD = ` Destination="` + idp.EscAttr(dest) + `"`
					}
					arD := `<samlp:AuthnRequest xmlns:samlp="urn:oasis:names:tc:SAML:2.0:protocol" xmlns:saml="urn:oasis:names:tc:SAML:2.0:assertion" ID="_ar" Version="2.0" IssueInstant="` + idp.NowInstant() + `"` + attrD + ` ProtocolBinding="` + idp.PostBinding + `"><saml:Issuer>` + sso.SPEntity + `</saml:Issuer></samlp:AuthnRequest>`
					env.Storage.ResetLog()
					rp := env.Do(idp.ReqSpec{Method: http.MethodPost, Path: esc(rel(eff[3].path)), Host: host, Header: spec.Header, Body: []idp.Param{idp.Q("SAMLRequest", idp.B64([]byte(arD)))}}.HTTP())
					run.Res.Evaluations++
					accepted := rp.Kind == "login-redirect" && env.Storage.CountOp("CreateAuthRequest") > 0
					expect := dest == "" || dest == advSSO
					run.Count(fmt.Sprintf("destination=advertised:%v accepted=%v", dest == advSSO, accepted))
					if accepted != expect {
						fail("destination-check-differs-from-advertised-location", fmt.Sprintf("advertised SingleSignOnService %q; a request with Destination %q accepted=%v (%s %d)", advSSO, dest, accepted, rp.Kind, rp.Code),
							map[string]interface{}{"conf": desc, "destination": dest, "advertised": advSSO})
					}
				}
			}
			// the certificate: KeyDescriptor = certificate endpoint = response signing key
			var mdCert string
			rep.Doc.Walk(func(n *idp.Node) {
				if n.Local == "X509Certificate" && mdCert == "" {
					mdCert = strings.TrimSpace(n.TextOf())
				}
			})
			der, _ := base64.StdEncoding.DecodeString(mdCert)
			if !bytes.Equal(der, env.Storage.RespKey.Certificate) {
				fail("metadata-certificate-is-not-the-signing-certificate", "KeyDescriptor certificate differs from the response signing certificate", desc)
			}
			if eff[1].url == "" {
				cr := env.Do(idp.ReqSpec{Method: http.MethodGet, Path: esc(rel(eff[1].path)), Host: host}.HTTP())
				blk, _ := pem.Decode(cr.Body)
				if blk == nil || !bytes.Equal(blk.Bytes, der) {
					fail("certificate-endpoint-differs-from-metadata", fmt.Sprintf("certificate endpoint serves %d bytes that are not the metadata certificate", len(cr.Body)), desc)
				}
			}
			// a rotated signing key: the next metadata document, the certificate endpoint and the next assertion all follow it
			if ci%9 == 0 && eff[1].url == "" && eff[0].url == "" {
				old := env.Storage.RespKey
				_, _, _, other := idp.Keys()
				env.Storage.RespKey = &key.CertificateAndKey{Certificate: other.CertDER, Key: other.Key}
				rep2 := env.Do(spec.HTTP())
				var cert2 string
				if rep2.Doc != nil {
					rep2.Doc.Walk(func(n *idp.Node) {
						if n.Local == "X509Certificate" && cert2 == "" {
							cert2 = strings.TrimSpace(n.TextOf())
						}
					})
				}
				der2, _ := base64.StdEncoding.DecodeString(cert2)
				cr := env.Do(idp.ReqSpec{Method: http.MethodGet, Path: esc(rel(eff[1].path)), Host: host}.HTTP())
				blk, _ := pem.Decode(cr.Body)
				run.Count("key-rotation-probed")
				if !bytes.Equal(der2, other.CertDER) || blk == nil || !bytes.Equal(blk.Bytes, other.CertDER) {
					fail("metadata-certificate-stale-after-key-rotation", "after the response signing key was replaced in storage, the metadata KeyDescriptor or the certificate endpoint still serve the previous certificate", desc)
				} else if eff[2].url == "" {
					if msg := verifyCallback(env, host, esc(rel(eff[2].path)), der2); msg != "" {
						fail("assertion-not-verifiable-with-metadata-certificate", "after key rotation: "+msg, desc)
					}
				}
				env.Storage.RespKey = old
			}
			if ci%5 == 0 && eff[2].url == "" {
				if msg := verifyCallback(env, host, esc(rel(eff[2].path)), der); msg != "" {
					fail("assertion-not-verifiable-with-metadata-certificate", msg, desc)
				}
				run.Count("assertion-verified-with-metadata-cert")
			}
		}
		id++
	}
	// ---- WantAuthnRequestsSigned vs behaviour
	for _, want := range []string{"", "true", "false", "1", "0", "TRUE", "True", "yes", " true", "true "} {
		for _, spFlag := range []*string{nil, sp("false")} {
			env, err := mkEnv(issuerCfg{static: "https://idp.example"}, conf{}, want, false)
			if err != nil {
				continue
			}
			env.Storage.ClearSPs()
			env.Storage.Register("app-1", sso.BaseSP(spFlag, true))
			md := env.Do(idp.ReqSpec{Method: http.MethodGet, Path: "/metadata"}.HTTP())
			run.Res.Evaluations++
			adv := ""
			if md.Doc != nil {
				if d := md.Doc.Child("IDPSSODescriptor"); d != nil {
					adv = d.AttrOr("WantAuthnRequestsSigned", "")
				}
			}
			ar := `<samlp:AuthnRequest xmlns:samlp="urn:oasis:names:tc:SAML:2.0:protocol" xmlns:saml="urn:oasis:names:tc:SAML:2.0:assertion" ID="_ar" Version="2.0" IssueInstant="` + idp.NowInstant() + `" ProtocolBinding="` + idp.PostBinding + `"><saml:Issuer>` + sso.SPEntity + `</saml:Issuer></samlp:AuthnRequest>`
			env.Storage.ResetLog()
			for _, q := range []idp.ReqSpec{{Method: http.MethodPost, Path: "/SSO", Body: []idp.Param{idp.Q("SAMLRequest", idp.B64([]byte(ar)))}},
				{Method: http.MethodGet, Path: "/SSO", Query: []idp.Param{idp.Q("SAMLRequest", idp.DeflateB64([]byte(ar)))}}} {
				env.Storage.ResetLog()
				rp := env.Do(q.HTTP())
				accepted := rp.Kind == "login-redirect" && env.Storage.CountOp("CreateAuthRequest") > 0
				advTrue := adv == "true" || adv == "1"
				run.Count(fmt.Sprintf("want=%q advertised-true=%v unsigned-accepted=%v", want, advTrue, accepted))
				run.Distinct(fmt.Sprintf("want/%s/%s/%v", want, q.Method, accepted))
				d := map[string]interface{}{"WantAuthRequestsSigned": want, "advertised": adv, "unsigned_request_accepted": accepted, "method": q.Method}
				if adv != want {
					fail("advertised-flag-differs-from-configuration", fmt.Sprintf("configured %q, advertised %q", want, adv), d)
				}
				if advTrue == accepted {
					fail("advertised-signing-requirement-differs-from-behaviour", fmt.Sprintf("WantAuthnRequestsSigned=%q is advertised, and an unsigned request is accepted=%v", adv, accepted), d)
				}
			}
			id++
		}
	}
	// ---- the path component of advertised and handcrafted URLs: net/url vs the model's url_path (URLs without percent-escapes:
	// Path is then the raw path)
	{
		urls := append([]string{"https://idp.example", "https://idp.example/", "https://idp.example:8443/a/b?x=1#f", "https://idp.example/a#f?x", "http://user:pw@idp.example/p/q/",
			"https://[::1]:8443/saml/SSO", "https://idp.example?x=/y", "/only/a/path", "https://idp.example//double", "https://idp.example/with space/x"}, seenLocs...)
		for _, u := range urls {
			if strings.Contains(u, "%") || !(strings.Contains(u, "://") || strings.HasPrefix(u, "/")) {
				continue
			}
			pu, err := url.Parse(u)
			if err != nil || pu.Opaque != "" {
				continue
			}
			run.Res.Evaluations++
			run.AddCase(id, fmt.Sprintf("KUrl %s %s %s", coqgen.Z(int64(id)), coqgen.Bytes(u), coqgen.Bytes(pu.Path)), map[string]interface{}{"url": u, "path": pu.Path})
			id++
		}
	}
	// ---- the validity-window check (hook VerifCheckRequestTime) against the generated Gallina: the clock and time.Parse are
	// oracles; every instant used is at least an hour away from now, so the answer does not depend on when exactly the check reads the clock
	{
		nowT := time.Now().UTC()
		pool := []string{"", "x", "2001-01-01T00:00:00Z", "2001-01-01", "2099-12-31T23:59:59.999999Z", nowT.Add(-2 * time.Hour).Format(provider.DefaultTimeFormat), nowT.Add(2 * time.Hour).Format(provider.DefaultTimeFormat),
			nowT.Add(-90 * time.Minute).Format(time.RFC3339), "2001-01-01T00:00:00+01:00", " 2001-01-01T00:00:00Z", "2001-13-01T00:00:00Z", "2001-01-01T00:00:00.123456789Z"}
		var parses []string
		for _, v := range pool {
			if tt, err := time.Parse(provider.DefaultTimeFormat, v); err == nil {
				parses = append(parses, fmt.Sprintf("(%s, Some %s)", coqgen.Bytes(v), coqgen.Z(tt.UnixNano())))
			} else {
				parses = append(parses, fmt.Sprintf("(%s, None)", coqgen.Bytes(v)))
			}
		}
		for _, nb := range pool {
			for _, noa := range pool {
				err := provider.VerifCheckRequestTime(nb, noa, provider.DefaultTimeFormat)
				obs := "None"
				if err != nil {
					obs = "(Some " + coqgen.Bytes(strings.SplitN(err.Error(), ":", 2)[0]) + ")"
				}
				run.Res.Evaluations++
				run.Count(fmt.Sprintf("time-check refused=%v", err != nil))
				run.AddCase(id, fmt.Sprintf("KTime %s %s %s %s %s %s %s", coqgen.Z(int64(id)), coqgen.Z(nowT.UnixNano()), coqgen.List(parses), coqgen.Bytes(nb), coqgen.Bytes(noa), coqgen.Bytes(provider.DefaultTimeFormat), obs),
					map[string]interface{}{"not_before": nb, "not_on_or_after": noa, "error": fmt.Sprint(err)})
				id++
			}
		}
	}
	// ---- when a signature / certificate has to be checked (hook VerifSignatureNecessary) against the generated Gallina (Gen/Nec.v)
	{
		flags := []string{"", "true", "1", "false", "TRUE", "0"}
		certPool := []string{"", "CERT", "X", "CE RT", "CERT\n", " C\tE\r\nRT ", "cert"}
		var norms []string
		for _, c := range certPool {
			norms = append(norms, fmt.Sprintf("(%s, %s)", coqgen.Bytes(c), coqgen.Bytes(strings.Join(strings.Fields(c), ""))))
		}
		nn := 400
		if tier == "thorough" {
			nn = 4000
		}
		optB := func(v *string) string {
			if v == nil {
				return "None"
			}
			return "(Some " + coqgen.Bytes(*v) + ")"
		}
		for k := 0; k < nn; k++ {
			var idpM *md.IDPSSODescriptorType
			var idpC *string
			if r.Intn(6) != 0 {
				f := flags[r.Intn(len(flags))]
				idpM = &md.IDPSSODescriptorType{WantAuthnRequestsSigned: f}
				idpC = &f
			}
			var spM *md.EntityDescriptorType
			spC := "None"
			if r.Intn(6) != 0 {
				spM = &md.EntityDescriptorType{}
				spC = "(Some None)"
				if r.Intn(6) != 0 {
					f := flags[r.Intn(len(flags))]
					d := &md.SPSSODescriptorType{AuthnRequestsSigned: f}
					var kds []string
					for n := r.Intn(3); n > 0; n-- {
						var xs []string
						kd := md.KeyDescriptorType{}
						for m := r.Intn(3); m > 0; m-- {
							c := certPool[r.Intn(len(certPool))]
							kd.KeyInfo.X509Data = append(kd.KeyInfo.X509Data, xml_dsig.X509DataType{X509Certificate: c})
							xs = append(xs, c)
						}
						d.KeyDescriptor = append(d.KeyDescriptor, kd)
						kds = append(kds, coqgen.BytesList(xs))
					}
					spM.SPSSODescriptor = d
					spC = fmt.Sprintf("(Some (Some (%s, %s)))", coqgen.Bytes(f), coqgen.List(kds))
				}
			}
			var sigM *xml_dsig.SignatureType
			sigC := "None"
			if r.Intn(4) != 0 {
				sigM = &xml_dsig.SignatureType{}
				sigM.SignatureValue.Id = []string{"", "id"}[r.Intn(2)]
				sigM.SignatureValue.Text = []string{"", "dmFsdWU=", " "}[r.Intn(3)]
				if r.Intn(3) == 0 {
					sigM.SignatureValue.XMLName.Local = "SignatureValue"
				}
				ki := "None"
				if r.Intn(3) != 0 {
					sigM.KeyInfo = &xml_dsig.KeyInfoType{}
					var xs []string
					for m := r.Intn(3); m > 0; m-- {
						c := certPool[r.Intn(len(certPool))]
						sigM.KeyInfo.X509Data = append(sigM.KeyInfo.X509Data, xml_dsig.X509DataType{X509Certificate: c})
						xs = append(xs, c)
					}
					ki = "(Some " + coqgen.BytesList(xs) + ")"
				}
				sigC = fmt.Sprintf("(Some (%s, %s, %s))", coqgen.Bytes(sigM.SignatureValue.Id), coqgen.Bytes(sigM.SignatureValue.Text), ki)
			}
			sigParam := []string{"", "c2ln"}[r.Intn(2)]
			binding := []string{provider.PostBinding, provider.RedirectBinding, "", "urn:other"}[r.Intn(4)]
			pv, po, re, ce, cr := provider.VerifSignatureNecessary(idpM, spM, sigM, sigParam, binding)
			run.Res.Evaluations++
			run.Count(fmt.Sprintf("necessary provided=%v post=%v redirect=%v cert=%v cert-refused=%v", pv, po, re, ce, cr))
			run.AddCase(id, fmt.Sprintf("KNec %s %s %s %s %s %s %s (%s, %s, %s, %s, %s)", coqgen.Z(int64(id)), coqgen.List(norms), optB(idpC), spC, sigC, coqgen.Bytes(sigParam), coqgen.Bytes(binding),
				coqgen.Bool(pv), coqgen.Bool(po), coqgen.Bool(re), coqgen.Bool(ce), coqgen.Bool(cr)), map[string]interface{}{"idp": idpM, "sp": spM, "signature": sigM, "signature_parameter": sigParam, "binding": binding})
			id++
		}
	}
	// ---- the two Destination checks (hooks VerifDestinationOf*) against the generated Gallina
	{
		locPool := []string{"https://idp.example/SSO", "https://idp.example/SSO/", "https://idp.example/sso", "https://idp.example/attribute", "", "/SSO", "https://idp.example/with space", "https://idp.example/ü", "x"}
		bindPool := []string{provider.RedirectBinding, provider.PostBinding, "", "urn:other"}
		nd := 300
		if tier == "thorough" {
			nd = 3000
		}
		for k := 0; k < nd; k++ {
			var eps []md.EndpointType
			for n := r.Intn(4); n > 0; n-- {
				eps = append(eps, md.EndpointType{Binding: bindPool[r.Intn(len(bindPool))], Location: locPool[r.Intn(len(locPool))], ResponseLocation: []string{"", "https://r"}[r.Intn(2)]})
			}
			dest := locPool[r.Intn(len(locPool))]
			switch r.Intn(6) {
			case 0:
				dest += "/"
			case 1:
				dest = strings.ToUpper(dest)
			case 2:
				if len(eps) > 0 {
					dest = eps[r.Intn(len(eps))].Location
				}
			}
			attr := k%2 == 1
			var err error
			if attr {
				err = provider.VerifDestinationOfAttrQuery(&md.AttributeAuthorityDescriptorType{AttributeService: eps}, &samlp.AttributeQueryType{Destination: dest})
			} else {
				err = provider.VerifDestinationOfAuthRequest(&md.IDPSSODescriptorType{SingleSignOnService: eps}, &samlp.AuthnRequestType{Destination: dest})
			}
			obs := "None"
			if err != nil {
				obs = "(Some " + coqgen.Bytes(err.Error()) + ")"
			}
			var ce []string
			for _, e := range eps {
				ce = append(ce, fmt.Sprintf("(%s, %s, %s)", coqgen.Bytes(e.Binding), coqgen.Bytes(e.Location), coqgen.Bytes(e.ResponseLocation)))
			}
			run.Res.Evaluations++
			run.Count(fmt.Sprintf("destination-check attr=%v endpoints=%d refused=%v", attr, len(eps), err != nil))
			run.AddCase(id, fmt.Sprintf("KDest %s %s %s %s %s", coqgen.Z(int64(id)), coqgen.Bool(attr), coqgen.List(ce), coqgen.Bytes(dest), obs), map[string]interface{}{"attribute_query": attr, "endpoints": eps, "destination": dest, "error": fmt.Sprint(err)})
			// independent: refused iff a Destination is given and is not literally one of the locations
			want := false
			if dest != "" {
				want = true
				for _, e := range eps {
					if e.Location == dest {
						want = false
					}
				}
			}
			if want != (err != nil) {
				fail("destination-check-differs-from-location-list", fmt.Sprintf("Destination %q, locations %v: refused=%v", dest, eps, err != nil), map[string]interface{}{"attribute_query": attr, "endpoints": eps, "destination": dest})
			}
			id++
		}
	}
	// ---- the exported Endpoint methods against the generated Gallina
	for _, p := range []string{"", "/", "x", "/x", "x/", "//x", "a/b", "/a/b/", "metadata", "ü", "a b"} {
		for _, u := range []string{"", "https://other.example/x", "relative"} {
			for _, h := range []string{"", "https://idp.example", "https://idp.example/", "https://idp.example//", "https://idp.example/saml/", "/"} {
				e := provider.NewEndpointWithURL(p, u)
				run.Res.Evaluations++
				run.AddCase(id, fmt.Sprintf("KEp %s %s %s %s %s %s", coqgen.Z(int64(id)), coqgen.Bytes(p), coqgen.Bytes(u), coqgen.Bytes(h), coqgen.Bytes(e.Relative()), coqgen.Bytes(e.Absolute(h))), map[string]interface{}{"path": p, "url": u, "host": h})
				id++
			}
		}
	}
	run.Res.Rule = "provider configurations: every issuer kind (static with/without path and trailing slash, with port; host-derived with / without path and leading slash; Forwarded-derived) with the default endpoints; each of the six endpoints (metadata, certificate, callback, SSO, SLO, attribute) set to each of 8 shapes (custom path with/without leading slash, trailing slash, empty, '/', upper case, with space, external URL) and to 5 colliding paths, the others default; random combinations. Per configuration and request host: which handler answers each route (fingerprints taken from a default provider) vs the Coq first-match model; entityID and the five advertised locations vs the model; independently: each path-configured advertised location, with the issuer prefix stripped, must be answered by the handler of its service (configurations with colliding routes are counted separately and only compared with the model), the Issuer of a LogoutResponse and of a refused Response must equal the entityID, the KeyDescriptor certificate must equal the certificate endpoint's and verify an issued assertion, also after the signing key was replaced in storage; WantAuthRequestsSigned in 10 spellings x SP flag: advertised string = configured string, and advertised xs:true <=> an unsigned request (POST and Redirect) is refused; the exported Endpoint methods vs the generated Gallina on 198 (path, url, host) triples; per configuration, requests whose Destination is absent / the advertised SingleSignOnService location / that plus a slash / the advertised SingleLogoutService location / another path under the issuer / the bare route path: accepted iff absent or the advertised location; the path component of every distinct advertised location and of handcrafted URLs (net/url) vs the model's url_path; the validity-window check (verif hook) on 144 pairs of instants (absent, unparsable, other layouts, past, future) vs the generated Gallina with the clock and time.Parse as oracles; the four functions deciding whether a signature / certificate has to be checked (verif hook) on random descriptors, provider records, signatures and bindings (nil pointers included) vs the generated Gallina (Gen/Nec.v); the two Destination check functions (verif hooks) on random endpoint lists and Destinations vs the generated Gallina and a literal-membership oracle. distinct = (issuer kind, metadata / SSO / attribute endpoint shape, routes distinct)."
	return run.Finish()
}

// verifyCallback obtains a signed Response from the callback endpoint and validates the assertion signature with the certificate
func verifyCallback(env *idp.Env, host, path string, der []byte) string {
	st := env.Storage
	st.Requests["c11"] = &idp.AuthReq{ID: "c11", AppID: "app-1", RelayState: "rs", ACS: "https://sp.example/acs/post", Binding: idp.PostBinding, AuthReqID: "_r", UserID: "u1", IsDone: true}
	st.Users["u1"] = &idp.User{Email: "a@example.com", Username: "alice", UserID: "u1"}
	rep := env.Do(idp.ReqSpec{Method: http.MethodGet, Path: path, Host: host, Query: []idp.Param{idp.Q("id", "c11")}}.HTTP())
	if rep.Msg == nil {
		return fmt.Sprintf("callback at %s gave no message (%s %d)", path, rep.Kind, rep.Code)
	}
	cert, err := x509.ParseCertificate(der)
	if err != nil {
		return "metadata certificate does not parse: " + err.Error()
	}
	doc := etree.NewDocument()
	if err := doc.ReadFromBytes(rep.Msg); err != nil {
		return err.Error()
	}
	as := doc.FindElement("//Assertion")
	if as == nil {
		return "no Assertion in the Response"
	}
	ctx := dsig.NewDefaultValidationContext(&dsig.MemoryX509CertificateStore{Roots: []*x509.Certificate{cert}})
	// detach so that in-scope namespace declarations of the Response are resolved as goxmldsig expects
	if _, err := ctx.Validate(as); err != nil {
		return "goxmldsig: " + err.Error()
	}
	return ""
}
