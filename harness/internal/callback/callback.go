// Package callback drives the login-callback endpoint over generated storage histories (C01, C03, C10).
package callback

import (
	"fmt"
	"math/rand"
	"net/http"
	"sort"
	"strings"

	"verif/harness/internal/coqgen"
	"verif/harness/internal/idp"
)

const issuer = "https://idp.example/saml"
const statusSuccess = "urn:oasis:names:tc:SAML:2.0:status:Success"

var hostile = []string{"plain", "a b", "<x>&\"'", "tab\there", "line\nbreak", " lead trail ", "ü€😀", "a&amp;b", "]]>", "%41+%zz", "x=1&y=2", ""}
var acsList = []string{"", "https://sp.example/acs", "https://sp.example/acs", "https://sp.example/acs?x=1&y=2", "https://sp.example/a'b(1)", "https://sp.example/ü"}
var bindings = []string{idp.PostBinding, idp.PostBinding, idp.PostBinding, idp.RedirBinding, idp.RedirBinding, idp.RedirBinding, idp.ArtifactBinding, ""}

type Placement string // where the id parameter is put

type Op struct {
	Kind      string     `json:"kind"` // accept | complete | callback
	Session   string     `json:"session"`
	Placement string     `json:"placement,omitempty"` // query | body | both | absent | empty | bodybad
	Fault     *idp.Fault `json:"fault,omitempty"`
}

type Obs struct {
	Kind                                                    int
	Status, Msg, Target, Relay, IRT, Dest, Audience, NameID string
	Attrs                                                   [][]string // name, friendly, format, values...
	Sig                                                     int
	Calls                                                   []idp.Call
}

func pick[T any](r *rand.Rand, xs []T) T { return xs[r.Intn(len(xs))] }

func randUser(r *rand.Rand, id string) *idp.User {
	u := &idp.User{UserID: id}
	f := func() string {
		if r.Intn(3) == 0 {
			return ""
		}
		return pick(r, hostile)
	}
	u.Email, u.FullName, u.GivenName, u.Surname, u.Username = f(), f(), f(), f(), f()
	if r.Intn(4) == 0 {
		u.UserID = ""
	}
	n := r.Intn(4)
	seen := map[string]bool{}
	for i := 0; i < n; i++ {
		name := pick(r, []string{"groups", "role", "a<b", "ü", "x y"})
		if seen[name] {
			continue
		}
		seen[name] = true
		var vals []string
		for j := r.Intn(4); j > 0; j-- {
			vals = append(vals, pick(r, hostile))
		}
		u.Custom = append(u.Custom, idp.CustomAttr{Name: name, Friendly: pick(r, []string{"", "Friendly", "f&f"}), Format: pick(r, []string{"", "urn:fmt", "urn:oasis:names:tc:SAML:2.0:attrname-format:basic"}), Values: vals})
	}
	return u
}

func coqUser(u *idp.User) string {
	if u == nil {
		return "None"
	}
	cs := append([]idp.CustomAttr(nil), u.Custom...)
	sort.Slice(cs, func(i, j int) bool { return cs[i].Name < cs[j].Name })
	var ca []string
	for _, c := range cs {
		ca = append(ca, fmt.Sprintf("{| ca_name := %s; ca_friendly := %s; ca_format := %s; ca_values := %s |}", coqgen.Bytes(c.Name), coqgen.Bytes(c.Friendly), coqgen.Bytes(c.Format), coqgen.BytesList(c.Values)))
	}
	return fmt.Sprintf("(Some {| u_email := %s; u_fullname := %s; u_given := %s; u_surname := %s; u_username := %s; u_userid := %s; u_custom := %s |})",
		coqgen.Bytes(u.Email), coqgen.Bytes(u.FullName), coqgen.Bytes(u.GivenName), coqgen.Bytes(u.Surname), coqgen.Bytes(u.Username), coqgen.Bytes(u.UserID), coqgen.List(ca))
}

func coqRec(a *idp.AuthReq) string {
	if a == nil {
		return "None"
	}
	return fmt.Sprintf("(Some {| sr_app := %s; sr_relay := %s; sr_acs := %s; sr_binding := %s; sr_reqid := %s; sr_user := %s; sr_done := %s |})",
		coqgen.Bytes(a.AppID), coqgen.Bytes(a.RelayState), coqgen.Bytes(a.ACS), coqgen.Bytes(a.Binding), coqgen.Bytes(a.AuthReqID), coqgen.Bytes(a.UserID), coqgen.Bool(a.IsDone))
}

func coqCalls(cs []idp.Call) string {
	var o []string
	for _, c := range cs {
		switch c.Op {
		case "AuthRequestByID":
			o = append(o, "KAuthRequestByID "+coqgen.Bytes(c.Args[0]))
		case "GetEntityIDByAppID":
			o = append(o, "KEntityIDByAppID "+coqgen.Bytes(c.Args[0]))
		case "SetUserinfoWithUserID":
			o = append(o, "KUserinfo "+coqgen.Bytes(c.Args[0])+" "+coqgen.Bytes(c.Args[1]))
		case "GetResponseSigningKey":
			o = append(o, "KSigningKey")
		default:
			o = append(o, "KSigningKey (* unexpected "+c.Op+" *)")
		}
	}
	return coqgen.List(o)
}

func coqObs(o Obs) string {
	var as []string
	for _, a := range o.Attrs {
		as = append(as, fmt.Sprintf("{| at_name := %s; at_friendly := %s; at_format := %s; at_values := %s |}", coqgen.Bytes(a[0]), coqgen.Bytes(a[1]), coqgen.Bytes(a[2]), coqgen.BytesList(a[3:])))
	}
	return fmt.Sprintf("{| b_kind := %s; b_status := %s; b_msg := %s; b_target := %s; b_relay := %s; b_irt := %s; b_dest := %s; b_audience := %s; b_nameid := %s; b_attrs := %s; b_sig := %s; b_calls := %s |}",
		coqgen.Z(int64(o.Kind)), coqgen.Bytes(o.Status), coqgen.Bytes(o.Msg), coqgen.Bytes(o.Target), coqgen.Bytes(o.Relay), coqgen.Bytes(o.IRT), coqgen.Bytes(o.Dest),
		coqgen.Bytes(o.Audience), coqgen.Bytes(o.NameID), coqgen.List(as), coqgen.Z(int64(o.Sig)), coqCalls(o.Calls))
}

// Project decodes the reply with the generic XML walk (never the library's typed decoders).
func Project(rep *idp.Reply, st *idp.Storage) Obs { return ProjectCalls(rep, st.Log()) }

// ProjectCalls is Project with an explicit storage call list (per-request logs under concurrency)
func ProjectCalls(rep *idp.Reply, calls []idp.Call) Obs {
	o := Obs{Calls: calls}
	switch rep.Kind {
	case "saml-body":
		o.Kind = 2
	case "saml-post":
		o.Kind = 3
		o.Target, o.Relay = rep.FormAction, rep.FormRelay
	case "saml-redirect":
		o.Kind = 4
		if i := strings.LastIndex(rep.Location, "SAMLResponse="); i > 0 {
			o.Target = rep.Location[:i-1]
		}
		o.Relay = rep.Q["RelayState"]
		if rep.Q["Signature"] != "" {
			o.Sig = 2
		}
	case "http-error":
		o.Kind = 5
	case "panic":
		o.Kind = 6
	default:
		o.Kind = 7
	}
	if d := rep.Doc; d != nil && d.Local == "Response" {
		o.Status = rep.Status
		o.Msg = d.Path("Status", "StatusMessage").TextOf()
		o.IRT = d.AttrOr("InResponseTo", "")
		o.Dest = d.AttrOr("Destination", "")
		as := d.Child("Assertion")
		o.NameID = as.Path("Subject", "NameID").TextOf()
		o.Audience = as.Path("Conditions", "AudienceRestriction", "Audience").TextOf()
		if as.Child("Signature") != nil {
			o.Sig = 1
		}
		var custom [][]string
		for _, stmt := range as.ChildrenNamed("AttributeStatement") {
			for _, a := range stmt.ChildrenNamed("Attribute") {
				row := []string{a.AttrOr("Name", ""), a.AttrOr("FriendlyName", ""), a.AttrOr("NameFormat", "")}
				for _, v := range a.ChildrenNamed("AttributeValue") {
					row = append(row, v.Text)
				}
				o.Attrs = append(o.Attrs, row)
			}
		}
		// custom attributes come out of a Go map in unspecified order: sort the tail (everything after the standard ones) by name
		std := map[string]bool{"Email": true, "SurName": true, "FirstName": true, "FullName": true, "UserName": true, "UserID": true}
		i := 0
		for i < len(o.Attrs) && std[o.Attrs[i][0]] && o.Attrs[i][1] == "" {
			i++
		}
		custom = append(custom, o.Attrs[i:]...)
		sort.SliceStable(custom, func(a, b int) bool { return custom[a][0] < custom[b][0] })
		o.Attrs = append(o.Attrs[:i:i], custom...)
	}
	return o
}

type Bench struct{ envs map[string]*idp.Env }

func (b *Bench) env(alg string) *idp.Env {
	if b.envs == nil {
		b.envs = map[string]*idp.Env{}
	}
	if e, ok := b.envs[alg]; ok {
		return e
	}
	conf := idp.DefaultConf()
	conf.IDPConfig.SignatureAlgorithm = alg
	e, err := idp.NewEnv(idp.EnvConfig{Issuer: issuer, Conf: conf})
	if err != nil {
		panic(err)
	}
	b.envs[alg] = e
	return e
}

func algValid(a string) bool {
	return a == idp.RSASHA1 || a == idp.RSASHA256 || a == "http://www.w3.org/2001/04/xmldsig-more#rsa-sha512"
}

// CoqCase renders one callback execution as a cb_case for Corr/CallbackCorr.v
func CoqCase(id int, formOK bool, formID string, rec *idp.AuthReq, entity *string, user *idp.User, certOK, signOK bool, obs Obs) string {
	ent := "None"
	if entity != nil {
		ent = "(Some " + coqgen.Bytes(*entity) + ")"
	}
	return fmt.Sprintf("{| q_id := %s; q_form_ok := %s; q_form_id := %s; q_rec := %s; q_entity := %s; q_user := %s; q_cert_ok := %s; q_sign_ok := %s; q_obs := %s |}",
		coqgen.Z(int64(id)), coqgen.Bool(formOK), coqgen.Bytes(formID), coqRec(rec), ent, coqUser(user), coqgen.Bool(certOK), coqgen.Bool(signOK), coqObs(obs))
}

// Run generates histories and executes every callback in them.
func Run(prop, dir, tier string, seed int64) error {
	run := coqgen.NewRun(dir, prop, tier, seed)
	run.Imports = "From Saml Require Import Base.Bytes Idp.Callback Core.Attrs Corr.CallbackCorr."
	run.CaseType = "cb_case"
	run.BadFn = "cb_bad"
	run.PerShard = 150
	r := rand.New(rand.NewSource(seed))
	histories := 90
	if tier == "thorough" {
		histories = 900
	}
	b := &Bench{}
	id := 0
	for h := 0; h < histories; h++ {
		alg := pick(r, []string{idp.RSASHA256, idp.RSASHA256, idp.RSASHA1, "http://example.org/unusable-algorithm"})
		env := b.env(alg)
		st := env.Storage
		st.Requests = map[string]*idp.AuthReq{}
		st.Users = map[string]*idp.User{}
		st.Apps = map[string]string{}
		nSess := 1 + r.Intn(5)
		completed := map[string]bool{}
		var hist []Op
		sessions := []string{}
		for i := 0; i < nSess; i++ {
			sessions = append(sessions, fmt.Sprintf("s%d-%d", h, i))
		}
		nOps := nSess + 3 + r.Intn(10)
		for k := 0; k < nOps; k++ {
			sid := pick(r, sessions)
			op := Op{Session: sid}
			x := r.Intn(10)
			if k < nSess { // most sessions start with an accepted request
				sid = sessions[k]
				op.Session = sid
				x = 0
				if r.Intn(7) == 0 {
					continue
				}
			}
			switch {
			case x < 1:
				op.Kind = "accept"
				app := pick(r, []string{"app-1", "app-2", "app<3>", "app-unknown"})
				st.Requests[sid] = &idp.AuthReq{ID: sid, AppID: app, RelayState: pick(r, hostile), ACS: pick(r, acsList), Binding: pick(r, bindings),
					AuthReqID: pick(r, []string{"_req1", "_r&q", "id with space", "ü", ""}), UserID: "user-" + sid}
				st.Apps["app-1"] = "https://sp.example/metadata"
				st.Apps["app-2"] = "https://sp2.example/md?x=<1>&y"
				st.Apps["app<3>"] = " spaced entity "
				completed[sid] = false
			case x < 4:
				op.Kind = "complete"
				if a, ok := st.Requests[sid]; ok {
					a.IsDone = true
					if r.Intn(8) != 0 {
						st.Users[a.UserID] = randUser(r, a.UserID)
					}
					completed[sid] = true
				}
			default:
				op.Kind = "callback"
				op.Placement = pick(r, []string{"query", "query", "query", "query", "body", "body", "both", "absent", "empty", "unknown", "bodybad"})
				switch r.Intn(12) {
				case 0:
					op.Fault = &idp.Fault{Op: "AuthRequestByID", Nth: 1, Kind: "error"}
				case 1:
					op.Fault = &idp.Fault{Op: "GetEntityIDByAppID", Nth: 1, Kind: "error"}
				case 2:
					op.Fault = &idp.Fault{Op: "SetUserinfoWithUserID", Nth: 1, Kind: "error"}
				case 3:
					op.Fault = &idp.Fault{Op: "GetResponseSigningKey", Nth: 1, Kind: pick(r, []string{"error", "nilrecord", "nokey", "nocert", "emptycert"})}
				}
			}
			hist = append(hist, op)
			if op.Kind != "callback" {
				continue
			}
			// ---- execute the callback
			spec := idp.ReqSpec{Method: http.MethodGet, Path: "/login"}
			switch op.Placement {
			case "query":
				spec.Query = []idp.Param{idp.Q("id", sid)}
			case "body":
				spec.Method = http.MethodPost
				spec.Body = []idp.Param{idp.Q("id", sid)}
			case "both":
				spec.Method = http.MethodPost
				spec.Body = []idp.Param{idp.Q("id", sid)}
				spec.Query = []idp.Param{idp.Q("id", "other-session")}
			case "empty":
				spec.Query = []idp.Param{idp.Q("id", "")}
			case "unknown":
				spec.Query = []idp.Param{idp.Q("id", "no-such-"+sid)}
			case "bodybad":
				spec.Method = http.MethodPost
				spec.Body = []idp.Param{{K: "id", V: "%zz"}}
			}
			// abstract inputs: net/http is the oracle for form parsing
			probe := spec.HTTP()
			formOK := probe.ParseForm() == nil
			formID := ""
			if formOK {
				formID = probe.Form.Get("id")
			}
			var rec *idp.AuthReq
			var entity *string
			var user *idp.User
			certOK := true
			if a, ok := st.Requests[formID]; ok && !(op.Fault != nil && op.Fault.Op == "AuthRequestByID") {
				cp := *a
				rec = &cp
				if e, ok := st.Apps[a.AppID]; ok && !(op.Fault != nil && op.Fault.Op == "GetEntityIDByAppID") {
					entity = &e
				}
				if u, ok := st.Users[a.UserID]; ok && !(op.Fault != nil && op.Fault.Op == "SetUserinfoWithUserID") {
					user = u
				}
			}
			if op.Fault != nil && op.Fault.Op == "GetResponseSigningKey" {
				certOK = false
			}
			signOK := true
			if rec != nil && (rec.Binding == idp.PostBinding || rec.Binding == idp.RedirBinding) {
				signOK = algValid(alg)
			}
			st.ResetLog()
			st.Faults = nil
			if op.Fault != nil {
				st.Faults = []idp.Fault{*op.Fault}
			}
			rep := env.Do(spec.HTTP())
			obs := Project(rep, st)
			run.Res.Evaluations++
			ent := "None"
			if entity != nil {
				ent = "(Some " + coqgen.Bytes(*entity) + ")"
			}
			coq := fmt.Sprintf("{| q_id := %s; q_form_ok := %s; q_form_id := %s; q_rec := %s; q_entity := %s; q_user := %s; q_cert_ok := %s; q_sign_ok := %s; q_obs := %s |}",
				coqgen.Z(int64(id)), coqgen.Bool(formOK), coqgen.Bytes(formID), coqRec(rec), ent, coqUser(user), coqgen.Bool(certOK), coqgen.Bool(signOK), coqObs(obs))
			desc := map[string]interface{}{"history": append([]Op(nil), hist...), "request": spec, "alg": alg, "record": rec, "user": user, "observed": obs, "reply_kind": rep.Kind, "code": rep.Code, "panic": rep.Panic}
			run.AddCase(id, coq, desc)
			state := "absent"
			if rec != nil {
				state = "pending"
				if rec.IsDone {
					state = "done"
				}
			}
			fk := "nofault"
			if op.Fault != nil {
				fk = op.Fault.Op + ":" + op.Fault.Kind
			}
			bn := ""
			if rec != nil {
				bn = rec.Binding[strings.LastIndex(rec.Binding, ":")+1:]
			}
			run.Count("record=" + state)
			run.Count("reply=" + rep.Kind)
			run.Count("placement=" + op.Placement)
			run.Distinct(fmt.Sprintf("%s/%s/%s/%s/%v->%d/%s", state, op.Placement, fk, bn, algValid(alg), obs.Kind, obs.Status))
			if id%29 == 3 {
				run.Sample(map[string]interface{}{"history": hist, "request": spec, "observed": obs})
			}
			for _, f := range oracles(prop, op, rec, entity, user, completed[formID], obs, rep, st, alg) {
				f.ID = id
				f.Input = desc
				run.Fail(f)
			}
			id++
		}
	}
	run.Res.Rule = "storage histories of 1-5 concurrent sessions and 3-12 operations (accept with hostile RelayState / request ID / ACS URL / application id / binding from {POST, Redirect, Artifact, empty}; complete with a random user record: any subset of standard attributes, 0-3 custom attributes with 0-3 values; callback with the id in query / body / both / absent / empty / unknown / unparsable body) with storage and key faults and usable / unusable signature algorithms; every callback is served by the real handler, decoded with a generic XML walk, checked by the property oracle and compared with the Coq model (reply class, status, message, target, RelayState, InResponseTo, Destination, audience, NameID, attribute statement, signature kind, storage call sequence). distinct = (record state, id placement, fault, binding, algorithm usable, reply kind, status)."
	return run.Finish()
}

func oracles(prop string, op Op, rec *idp.AuthReq, entity *string, user *idp.User, completed bool, o Obs, rep *idp.Reply, st *idp.Storage, alg string) []coqgen.Failure {
	var out []coqgen.Failure
	fail := func(class, what string) { out = append(out, coqgen.Failure{Class: class, What: what}) }
	success := o.Status == statusSuccess
	if o.Kind == 6 {
		fail("panic:callback", rep.Panic)
		return out
	}
	switch prop {
	case "C01":
		if success && (rec == nil || !rec.IsDone || !completed) {
			fail("success-without-completed-authentication", "Success response although the stored request is absent or not done")
		}
		if success && (user == nil || entity == nil || len(st.Fired) > 0 || (rec != nil && (rec.Binding == idp.PostBinding || rec.Binding == idp.RedirBinding) && !algValid(alg))) {
			fail("success-despite-lookup-or-signing-failure", fmt.Sprintf("Success response although user-info lookup, key retrieval or signing failed (fired faults %v, algorithm %s)", st.Fired, alg))
		}
		if success && rec != nil && (rec.Binding == idp.PostBinding || rec.Binding == idp.RedirBinding) && rec.ACS != "" && o.Sig == 0 {
			fail("success-unsigned", "Success response delivered without any signature")
		}
		if !success && (o.NameID != "" || len(o.Attrs) > 0 || o.Sig != 0) {
			fail("failure-reply-leaks", fmt.Sprintf("non-Success reply with NameID %q, %d attributes, signature kind %d", o.NameID, len(o.Attrs), o.Sig))
		}
		nUserinfo := 0
		for _, c := range o.Calls {
			if c.Op == "SetUserinfoWithUserID" {
				nUserinfo++
			}
		}
		if nUserinfo > 0 && (rec == nil || !rec.IsDone) {
			fail("userinfo-fetched-before-done", "SetUserinfoWithUserID called for a request that is not done")
		}
	case "C10":
		if len(st.Fired) > 0 {
			if success {
				fail("success-despite-fault", fmt.Sprintf("fault %v fired but the reply is Success", st.Fired))
			}
			if !(o.Kind == 5 || (o.Kind >= 2 && o.Kind <= 4 && o.Status != "" && !success)) {
				fail("fault-not-answered-with-error", fmt.Sprintf("fault %v: reply kind %s code %d", st.Fired, rep.Kind, rep.Code))
			}
			if o.NameID != "" || len(o.Attrs) > 0 {
				fail("fault-reply-leaks-user-data", "user data in the reply after a fault")
			}
		}
	case "C03":
		if success && rec != nil && user != nil && entity != nil {
			if o.IRT != rec.AuthReqID {
				fail("inresponseto-mismatch", fmt.Sprintf("InResponseTo %q, stored request id %q", o.IRT, rec.AuthReqID))
			}
			if rep.Doc != nil {
				scd := rep.Doc.Path("Assertion", "Subject", "SubjectConfirmation", "SubjectConfirmationData")
				if scd.AttrOr("InResponseTo", "") != rec.AuthReqID {
					fail("subjectconfirmation-inresponseto-mismatch", scd.AttrOr("InResponseTo", ""))
				}
				if scd.AttrOr("Recipient", "") != rec.ACS || o.Dest != rec.ACS {
					fail("recipient-or-destination-mismatch", fmt.Sprintf("Recipient %q Destination %q stored ACS %q", scd.AttrOr("Recipient", ""), o.Dest, rec.ACS))
				}
				if iss := rep.Doc.Path("Assertion", "Issuer").TextOf(); iss != issuer+"/metadata" || rep.Doc.Child("Issuer").TextOf() != issuer+"/metadata" {
					fail("issuer-mismatch", iss)
				}
				rid, aid := rep.Doc.AttrOr("ID", ""), rep.Doc.Child("Assertion").AttrOr("ID", "")
				if rid == aid || !validXSID(rid) || !validXSID(aid) {
					fail("ids-not-fresh-xsid", rid+" / "+aid)
				}
			}
			if o.Audience != *entity {
				fail("audience-mismatch", fmt.Sprintf("Audience %q, registered entity id %q", o.Audience, *entity))
			}
			if o.NameID != user.Username {
				fail("nameid-mismatch", fmt.Sprintf("NameID %q, user name %q", o.NameID, user.Username))
			}
			want := expectedAttrs(user)
			if fmt.Sprint(want) != fmt.Sprint(o.Attrs) {
				fail("attribute-statement-mismatch", fmt.Sprintf("got %q want %q", o.Attrs, want))
			}
			if o.Kind == 3 || o.Kind == 4 {
				if o.Relay != rec.RelayState {
					fail("relaystate-mismatch", fmt.Sprintf("RelayState %q, stored %q", o.Relay, rec.RelayState))
				}
			}
		}
	}
	return out
}

func validXSID(s string) bool {
	if len(s) != 37 || s[0] != '_' {
		return false
	}
	for _, c := range s[1:] {
		if !(c >= '0' && c <= '9' || c >= 'a' && c <= 'f' || c == '-') {
			return false
		}
	}
	return true
}

func expectedAttrs(u *idp.User) [][]string {
	var out [][]string
	basic := "urn:oasis:names:tc:SAML:2.0:attrname-format:basic"
	add := func(n, v string) {
		if v != "" {
			out = append(out, []string{n, "", basic, v})
		}
	}
	add("Email", u.Email)
	add("SurName", u.Surname)
	add("FirstName", u.GivenName)
	add("FullName", u.FullName)
	add("UserName", u.Username)
	add("UserID", u.UserID)
	cs := append([]idp.CustomAttr(nil), u.Custom...)
	sort.Slice(cs, func(i, j int) bool { return cs[i].Name < cs[j].Name })
	for _, c := range cs {
		out = append(out, append([]string{c.Name, c.Friendly, c.Format}, c.Values...))
	}
	return out
}
