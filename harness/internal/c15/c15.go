// Package c15: N concurrent clients on one provider instance, distinct sessions / service providers / Host headers.
// Each reply is compared with the reply the same request gets alone, searched for the markers of every other session,
// and (login callbacks) run through the Coq callback model with the storage calls made on its behalf; all message IDs
// are collected. Built and run with the Go race detector by bin/check.
package c15

import (
	"fmt"
	"math/rand"
	"net/http"
	"regexp"
	"sort"
	"strings"
	"sync"

	"verif/harness/internal/callback"
	"verif/harness/internal/coqgen"
	"verif/harness/internal/idp"
)

func marker(k int) string { return fmt.Sprintf("zq%04dqz", k) }

type session struct {
	k                          int
	host, entity, acs, slo     string
	sid, reqID, relay, binding string
	user                       *idp.User
}

type request struct {
	kind string
	spec idp.ReqSpec
}

func (s *session) requests() []request {
	m := marker(s.k)
	authn := func(id, notOnOrAfter string) string {
		return `<samlp:AuthnRequest xmlns:samlp="urn:oasis:names:tc:SAML:2.0:protocol" xmlns:saml="urn:oasis:names:tc:SAML:2.0:assertion" ID="` + id + `" Version="2.0" IssueInstant="` + idp.NowInstant() + `" ProtocolBinding="` + idp.PostBinding + `"><saml:Issuer>` + s.entity + `</saml:Issuer><saml:Conditions NotOnOrAfter="` + notOnOrAfter + `"/></samlp:AuthnRequest>`
	}
	lo := `<samlp:LogoutRequest xmlns:samlp="urn:oasis:names:tc:SAML:2.0:protocol" xmlns:saml="urn:oasis:names:tc:SAML:2.0:assertion" ID="LO-` + m + `" Version="2.0"><saml:Issuer>` + s.entity + `</saml:Issuer><saml:NameID>u</saml:NameID></samlp:LogoutRequest>`
	aq := `<soap:Envelope xmlns:soap="http://schemas.xmlsoap.org/soap/envelope/"><soap:Body><samlp:AttributeQuery xmlns:samlp="urn:oasis:names:tc:SAML:2.0:protocol" xmlns:saml="urn:oasis:names:tc:SAML:2.0:assertion" ID="AQ-` + m + `" Version="2.0" IssueInstant="2024-01-01T00:00:00Z"><saml:Issuer>` + s.entity + `</saml:Issuer><saml:Subject><saml:NameID>login-` + m + `</saml:NameID></saml:Subject></samlp:AttributeQuery></soap:Body></soap:Envelope>`
	return []request{
		{"callback", idp.ReqSpec{Method: http.MethodGet, Path: "/login", Host: s.host, Query: []idp.Param{idp.Q("id", s.sid)}}},
		{"sso-accept", idp.ReqSpec{Method: http.MethodPost, Path: "/SSO", Host: s.host, Body: []idp.Param{idp.Q("SAMLRequest", idp.B64([]byte(authn("AR-"+m, "2099-01-01T00:00:00Z")))), idp.Q("RelayState", "RS-"+m)}}},
		{"sso-refuse", idp.ReqSpec{Method: http.MethodPost, Path: "/SSO", Host: s.host, Body: []idp.Param{idp.Q("SAMLRequest", idp.B64([]byte(authn("AX-"+m, "2001-01-01T00:00:00Z")))), idp.Q("RelayState", "RS-"+m)}}},
		{"logout", idp.ReqSpec{Method: http.MethodPost, Path: "/SLO", Host: s.host, Body: []idp.Param{idp.Q("SAMLRequest", idp.B64([]byte(lo))), idp.Q("RelayState", "RS-"+m)}}},
		{"attribute-query", idp.ReqSpec{Method: http.MethodPost, Path: "/attribute", Host: s.host, RawBody: &aq}},
		{"metadata", idp.ReqSpec{Method: http.MethodGet, Path: "/metadata", Host: s.host}},
		{"certificate", idp.ReqSpec{Method: http.MethodGet, Path: "/certificate", Host: s.host}},
	}
}

var (
	volatileAttr = regexp.MustCompile(`\b(ID|SessionIndex|IssueInstant|NotBefore|NotOnOrAfter|AuthnInstant|SessionNotOnOrAfter|validUntil|URI)="[^"]*"`)
	volatileText = regexp.MustCompile(`<(SignatureValue|DigestValue)([^>]*)>[^<]*</`)
	idAttr       = regexp.MustCompile(`\b(?:ID|SessionIndex)="([^"]*)"`)
	ncName       = regexp.MustCompile(`^[A-Za-z_][A-Za-z0-9._-]*$`)
	loginID      = regexp.MustCompile(`(login\?id=|authRequestID=|/login/)[^&"' ]+`)
)

// canon is the reply without what legitimately differs between two executions of the same request
func canon(rep *idp.Reply) (string, []string) {
	var ids []string
	doc := string(rep.Msg)
	for _, m := range idAttr.FindAllStringSubmatch(doc, -1) {
		ids = append(ids, m[1])
	}
	doc = volatileAttr.ReplaceAllString(doc, `$1="*"`)
	doc = volatileText.ReplaceAllString(doc, `<$1$2>*</`)
	target := rep.FormAction
	relay := rep.FormRelay
	if rep.Kind == "saml-redirect" {
		if i := strings.Index(rep.Location, "?"); i >= 0 {
			target = rep.Location[:i]
		}
		relay = rep.Q["RelayState"] + "|" + rep.Q["SigAlg"]
	}
	loc := ""
	if rep.Kind == "login-redirect" {
		loc = loginID.ReplaceAllString(rep.Location, "$1*")
	}
	body := ""
	if rep.Msg == nil && rep.Kind != "saml-post" {
		body = string(rep.Body)
	}
	return fmt.Sprintf("kind=%s code=%d target=%s relay=%s loc=%s doc=%s body=%s", rep.Kind, rep.Code, target, relay, loc, doc, body), ids
}

func Run(dir, tier string, seed int64) error {
	run := coqgen.NewRun(dir, "C15", tier, seed)
	run.Imports = "From Saml Require Import Base.Bytes Idp.Callback Core.Attrs Corr.CallbackCorr."
	run.CaseType = "cb_case"
	run.BadFn = "cb_bad"
	run.PerShard = 150
	r := rand.New(rand.NewSource(seed))
	path := "/saml"
	env, err := idp.NewEnv(idp.EnvConfig{HostPath: &path})
	if err != nil {
		return err
	}
	st := env.Storage
	levels := []int{4, 16, 64}
	rounds := 3
	if tier == "thorough" {
		levels = []int{4, 16, 64, 128, 256}
		rounds = 12
	}
	maxN := levels[len(levels)-1]
	var sessions []*session
	_, _, spKey, _ := idp.Keys()
	for k := 0; k < maxN; k++ {
		m := marker(k)
		s := &session{k: k, host: "idp-" + m + ".example", entity: "https://sp-" + m + ".example/md", acs: "https://sp-" + m + ".example/acs", slo: "https://sp-" + m + ".example/slo",
			sid: "sess-" + m, reqID: "REQ-" + m, relay: "RS-" + m, binding: []string{idp.PostBinding, idp.RedirBinding}[k%2]}
		s.user = &idp.User{Email: "mail-" + m + "@example.com", FullName: "Full " + m, GivenName: "Given " + m, Surname: "Sur " + m, Username: "login-" + m, UserID: "uid-" + m,
			Custom: []idp.CustomAttr{{Name: "custom-" + m, Format: "urn:fmt", Values: []string{"v1-" + m, "v2-" + m}}}}
		meta := idp.SPMeta{EntityID: s.entity, ACS: []idp.ACS{{Index: "0", Binding: idp.PostBinding, Location: s.acs}, {Index: "1", Binding: idp.RedirBinding, Location: s.acs + "/redirect"}},
			SLO: []idp.SLO{{Binding: idp.PostBinding, Location: s.slo}}, Certs: []idp.CertEntry{{Use: "signing", Text: spKey.CertB64()}}}
		if _, err := st.Register("app-"+m, meta); err != nil {
			return err
		}
		st.Apps["app-"+m] = s.entity
		st.Requests[s.sid] = &idp.AuthReq{ID: s.sid, AppID: "app-" + m, RelayState: s.relay, ACS: s.acs, Binding: s.binding, AuthReqID: s.reqID, UserID: "user-" + m, IsDone: true}
		st.Users["user-"+m] = s.user
		st.Logins["login-"+m] = s.user
		sessions = append(sessions, s)
	}
	// ---- alone: every request once, sequentially
	alone := map[string]string{}
	allIDs := map[string]int{}
	addIDs := func(ids []string, where string) {
		for _, x := range ids {
			if x == "" {
				// the empty <Assertion ID=""> of a failed Response: one specific, separately classified defect
				run.Fail(coqgen.Failure{ID: 900000, Class: "empty-assertion-id-in-failed-response", What: "a failed Response carries an <Assertion> element whose ID attribute is the empty string (reply to " + where + ")", Input: map[string]interface{}{"request": where}})
				continue
			}
			allIDs[x]++
			if !ncName.MatchString(x) {
				run.Fail(coqgen.Failure{ID: 900000 + len(allIDs), Class: "id-not-an-xs-id", What: fmt.Sprintf("%q in %s", x, where), Input: map[string]interface{}{"id": x}})
			}
		}
	}
	for _, s := range sessions {
		for _, q := range s.requests() {
			rep := env.Do(q.spec.HTTP())
			c, ids := canon(rep)
			alone[fmt.Sprintf("%d/%s", s.k, q.kind)] = c
			addIDs(ids, q.kind)
			run.Res.Evaluations++
			run.Count("alone=" + q.kind + "/" + rep.Kind)
			if q.kind != "certificate" && !strings.Contains(c, marker(s.k)) && rep.Code < 400 && s.k == 0 {
				run.Note("request %s of session %d: the reply carries no marker of its session (the cross-talk oracle is weak for it)", q.kind, s.k)
			}
		}
	}
	// ---- concurrent
	caseID := 0
	var mu sync.Mutex
	for _, n := range levels {
		for round := 0; round < rounds; round++ {
			type job struct {
				s   *session
				q   request
				tag string
			}
			perG := make([][]job, n)
			for g := 0; g < n; g++ {
				s := sessions[g]
				qs := s.requests()
				order := r.Perm(len(qs))
				for rep := 0; rep < 2; rep++ {
					for _, i := range order {
						perG[g] = append(perG[g], job{s, qs[i], fmt.Sprintf("n%d-r%d-g%d-%s-%d", n, round, g, qs[i].kind, rep)})
					}
				}
			}
			type outcome struct {
				j   job
				rep *idp.Reply
			}
			results := make([][]outcome, n)
			var wg sync.WaitGroup
			start := make(chan struct{})
			for g := 0; g < n; g++ {
				wg.Add(1)
				go func(g int) {
					defer wg.Done()
					<-start
					for _, j := range perG[g] {
						results[g] = append(results[g], outcome{j, env.DoTagged(j.q.spec.HTTP(), j.tag)})
					}
				}(g)
			}
			close(start)
			wg.Wait()
			for g := 0; g < n; g++ {
				for _, o := range results[g] {
					s, q, rep := o.j.s, o.j.q, o.rep
					mu.Lock()
					run.Res.Evaluations++
					run.Count(fmt.Sprintf("concurrent=%s", q.kind))
					run.Distinct(fmt.Sprintf("%d/%s/%s", n, q.kind, rep.Kind))
					c, ids := canon(rep)
					addIDs(ids, q.kind)
					desc := map[string]interface{}{"goroutines": n, "round": round, "session": s.k, "request": q.kind, "spec": q.spec}
					if rep.Panic != "" {
						run.Fail(coqgen.Failure{ID: caseID, Class: "panic:concurrent", What: rep.Panic, Input: desc})
					}
					if want := alone[fmt.Sprintf("%d/%s", s.k, q.kind)]; want != c {
						desc["alone"], desc["concurrent"] = want, c
						run.Fail(coqgen.Failure{ID: caseID, Class: "reply-differs-from-reply-alone", What: fmt.Sprintf("session %d %s with %d concurrent clients: the reply differs from the reply the same request gets alone (first difference at byte %d)", s.k, q.kind, n, firstDiff(want, c)), Input: desc})
					}
					full := c + rep.Location + string(rep.Body)
					for _, other := range sessions[:n] {
						if other.k != s.k && strings.Contains(full, marker(other.k)) {
							run.Fail(coqgen.Failure{ID: caseID, Class: "reply-carries-another-sessions-data", What: fmt.Sprintf("the reply to session %d (%s) contains the marker of session %d", s.k, q.kind, other.k), Input: desc})
							break
						}
					}
					if q.kind == "callback" {
						rec := *st.Requests[s.sid]
						ent := s.entity
						obs := callback.ProjectCalls(rep, st.LogFor(o.j.tag))
						run.AddCase(caseID, callback.CoqCase(caseID, true, s.sid, &rec, &ent, s.user, true, true, obs), desc)
					}
					caseID++
					mu.Unlock()
				}
			}
		}
	}
	dups := []string{}
	for x, c := range allIDs {
		if c > 1 {
			dups = append(dups, x)
		}
	}
	sort.Strings(dups)
	if len(dups) > 0 {
		run.Fail(coqgen.Failure{ID: 999999, Class: "message-id-repeated", What: fmt.Sprintf("%d message IDs occur more than once, e.g. %q", len(dups), dups[0]), Input: map[string]interface{}{"ids": dups[:min(len(dups), 10)]}})
	}
	run.Res.Distribution["distinct-message-ids"] = len(allIDs)
	run.Res.Rule = fmt.Sprintf("one provider (host-derived issuer) shared by N = %v goroutines x %d rounds; goroutine g serves session g (own service provider, stored request, user, Host header, RelayState, request IDs, all carrying a session marker) and issues, in random order and twice, a login callback (POST or Redirect binding), an accepted and a refused SSO request, a logout, an attribute query, metadata and certificate requests. Every reply must equal (IDs, instants and signature values masked) the reply the same request got alone, must not contain any other session's marker, and all ID attributes seen (%d) must be pairwise distinct NCNames; every concurrent login callback is also a Coq case (callback model on the session's own records, with the storage calls logged for that request). The binary is built with -race; a race report is a failure. distinct = (N, request kind, reply kind).", levels, rounds, len(allIDs))
	return run.Finish()
}

func firstDiff(a, b string) int {
	for i := 0; i < len(a) && i < len(b); i++ {
		if a[i] != b[i] {
			return i
		}
	}
	return min(len(a), len(b))
}
