module verif/harness

go 1.23.7

require (
	github.com/zitadel/logging v0.5.0
	github.com/zitadel/saml v0.0.0
)

require (
	github.com/sirupsen/logrus v1.8.1 // indirect
	golang.org/x/exp v0.0.0-20230817173708-d852ddb80c63 // indirect
	golang.org/x/sys v0.11.0 // indirect
)

replace github.com/zitadel/saml => /repo
