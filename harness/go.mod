module verif/harness

go 1.23.7

require (
	github.com/beevik/etree v1.3.0
	github.com/muhlemmer/httpforwarded v0.1.0
	github.com/russellhaering/goxmldsig v1.4.0
	github.com/zitadel/logging v0.5.0
	github.com/zitadel/saml v0.0.0
)

require (
	github.com/amdonov/xmlsig v0.1.0 // indirect
	github.com/felixge/httpsnoop v1.0.3 // indirect
	github.com/google/uuid v1.6.0 // indirect
	github.com/gorilla/handlers v1.5.2 // indirect
	github.com/gorilla/mux v1.8.1 // indirect
	github.com/jonboulle/clockwork v0.2.2 // indirect
	github.com/sirupsen/logrus v1.8.1 // indirect
	golang.org/x/exp v0.0.0-20230817173708-d852ddb80c63 // indirect
	golang.org/x/sys v0.11.0 // indirect
)

replace github.com/zitadel/saml => /repo
